# amaranth: UnusedElaboratable=no
"""Simulation harness shared by the hardware monitors.

* Top: wraps DUTs in a module with a free-running counter, so a `sync` domain always exists
  and component port directions never matter for elaboration.
* Mon: verdict bookkeeping - every evaluation of a monitor is counted, the first failing
  evaluation is recorded with the trailing trace and stops the run.
* simulate(): run one testbench coroutine under Amaranth's simulator.
"""
import zlib
from collections import Counter, deque

from vmon import env  # noqa: F401

from amaranth import Elaboratable, Module, Signal
from amaranth.sim import Simulator
from amaranth_soc.memory import MemoryMap


class Stop(Exception):
    """Raised by Mon to end a run at the first disagreement."""


class Top(Elaboratable):
    def __init__(self, subs, extra=None):
        self.subs = list(subs.items()) if isinstance(subs, dict) else list(subs)
        self.extra = extra
        self.ctr = Signal(16)
        self.rename = False        # set by simulate(): the DUTs live in a clock domain that is not called "sync"
        self.reset_less = False    # ... and that domain has no reset at all (only in cases without a warm reset)
        self.unclocked = ()        # names of purely combinational DUTs that are given a domain whose clock never ticks
        self.rst = Signal(name="vmon_rst")      # synchronous reset of the whole design, pulsed by benches that model it
        self.sim_reset = False

    def elaborate(self, platform):
        m = Module()
        m.d.sync += self.ctr.eq(self.ctr + 1)
        if self.sim_reset:
            # only under simulate(): when the design is converted with explicit ports (C19) the domain's reset stays
            # the top-level input it is by default
            from amaranth import ResetSignal
            m.d.comb += ResetSignal("sync").eq(self.rst)
        wrap = lambda sub: sub
        if self.rename:
            # what a SoC with several clock domains does with every peripheral: DomainRenamer. The renamed domain
            # runs off the very same clock and reset, so cycle-accurate monitors are unaffected
            from amaranth import ClockDomain, ClockSignal, ResetSignal, DomainRenamer
            m.domains.vmon = cd = ClockDomain("vmon", reset_less=self.reset_less)
            m.d.comb += cd.clk.eq(ClockSignal("sync"))
            if not self.reset_less:
                m.d.comb += cd.rst.eq(ResetSignal("sync"))
            wrap = lambda sub: DomainRenamer("vmon")(sub)
        if self.unclocked:
            # a component specified as same-cycle pass-through needs no clock: whatever domain it is instantiated
            # in may be stopped (clock gating) or unrelated to its neighbours' clock
            from amaranth import ClockDomain, DomainRenamer
            m.domains.vmon_stopped = stopped = ClockDomain("vmon_stopped")
            m.d.comb += [stopped.clk.eq(0), stopped.rst.eq(0)]
        for i, item in enumerate(self.subs):
            name, sub = item if isinstance(item, tuple) else (f"dut{i}", item)
            if name in self.unclocked:
                m.submodules[name] = DomainRenamer("vmon_stopped")(sub)
            else:
                m.submodules[name] = wrap(sub)
        if self.extra is not None:
            self.extra(m)
        return m


class Mon:
    def __init__(self, trace_len=10):
        self.counters = Counter()
        self.bins = {}
        self.violations = []
        self.trace = deque(maxlen=trace_len)
        self.cycle = 0

    def count(self, name, n=1):
        self.counters[name] += n

    def bin(self, name, item):
        self.bins.setdefault(name, set()).add(item if isinstance(item, str) else repr(item))

    def log(self, sample):
        self.trace.append(sample)

    def fail(self, monitor, msg, mechanism=None, **detail):
        v = {"monitor": monitor, "msg": msg, "cycle": self.cycle,
             "detail": detail, "trace_tail": list(self.trace)}
        if mechanism:
            v["mechanism"] = mechanism
        self.violations.append(v)
        raise Stop()

    def ok(self, monitor, cond, msg="", **detail):
        """Evaluate one monitor instance. Returns normally iff cond holds."""
        self.counters[monitor] += 1
        if not cond:
            self.fail(monitor, msg() if callable(msg) else msg, **detail)

    def eq(self, monitor, observed, expected, what="", **detail):
        self.counters[monitor] += 1
        if observed != expected:
            self.fail(monitor, f"{what}: observed {observed!r}, expected {expected!r}",
                      observed=observed, expected=expected, **detail)

    def run(self, fn, *args):
        """Run an API-history workload; the first failing monitor ends it quietly."""
        try:
            fn(*args)
        except Stop:
            pass

    def result(self, **extra):
        r = {"violations": self.violations, "counters": dict(self.counters),
             "bins": {k: sorted(v) for k, v in self.bins.items()}}
        r.update(extra)
        return r


CURRENT_CASE_SEED = ""      # set by the worker before each case (deterministic per-case choices made here)
CURRENT_TOP = None          # the Top being simulated (set by simulate())


class SizedMap(MemoryMap):
    """The container-style subclass a project writes to ask a map how much it holds: len() is the number of items added
    directly, so a map nothing has been added to yet is falsy."""

    def __len__(self):
        return sum(1 for _ in self.resources()) + sum(1 for _ in self.windows())


_MAPS_MADE = ["", 0]
MAP_KINDS = Counter()


def new_map(**kwargs):
    """A memory map for an interface: a plain MemoryMap, in a fifth of the calls (chosen per case and call) a SizedMap."""
    if _MAPS_MADE[0] != CURRENT_CASE_SEED:
        _MAPS_MADE[:] = [CURRENT_CASE_SEED, 0]
    _MAPS_MADE[1] += 1
    sized = zlib.crc32(f"map:{CURRENT_CASE_SEED}:{_MAPS_MADE[1]}".encode()) % 5 == 0
    MAP_KINDS["sized" if sized else "plain"] += 1
    return (SizedMap if sized else MemoryMap)(**kwargs)


class PlatformStandIn:
    """The little of amaranth.build.Platform a component might look at during elaborate(platform)."""
    default_clk = "clk"
    default_rst = "rst"
    default_clk_frequency = 50_000.0      # 50 kHz: one millisecond is 50 cycles
    device = "vmon-standin"

    def default_clk_constraint(self):
        return None


def reset_plan(cycles, p=0.2):
    """Cycles in which the design's synchronous reset is asserted (a warm reset in the middle of traffic), chosen
    deterministically from the case's stimulus seed: empty for most cases, else 1-3 pulses of 1-3 cycles. A bench that uses it
    drives the reset with drive_reset() and re-initialises its reference model at the end of such a cycle:
    registers return to their initial values at that clock edge whatever else happens in the cycle."""
    import os
    import random
    r = random.Random(CURRENT_CASE_SEED + ":reset")
    if r.random() >= p and not os.environ.get("VMON_FORCE_RESET"):
        return frozenset()
    out = set()
    for _ in range(r.choice([1, 1, 2, 3])):
        start = r.randrange(2, max(3, cycles - 4))
        out.update(range(start, start + r.choice([1, 1, 1, 2, 3])))       # the reset may be held for a few cycles
    return frozenset(out)


def drive_reset(ctx, on):
    ctx.set(CURRENT_TOP.rst, int(bool(on)))


def simulate(top, bench, mon=None):
    """Run `bench` (async def bench(ctx)) against `top`. A Stop raised by the monitor ends the
    run quietly; anything else propagates.

    In a quarter of the cases (chosen deterministically from the case's stimulus seed) the design is
    elaborated once *before* the monitored simulation, so that the monitors also observe the hardware a
    component yields on its second elaboration (simulate-after-synthesise)."""
    import os
    import zlib
    global CURRENT_TOP
    CURRENT_TOP = top
    if isinstance(top, Top):
        top.sim_reset = True
    if isinstance(top, Top) and (zlib.crc32(("dom:" + CURRENT_CASE_SEED).encode()) % 6 == 0 or os.environ.get("VMON_FORCE_RENAME")):
        top.rename = True
        if mon is not None:
            mon.count("runs_in_a_renamed_clock_domain")
        if not reset_plan(1000) and zlib.crc32(("rl:" + CURRENT_CASE_SEED).encode()) % 2 == 0:
            # a clock domain without a reset (ClockDomain(reset_less=True)): registers rely on their initial values
            top.reset_less = True
            if mon is not None:
                mon.count("runs_in_a_reset_less_clock_domain")
    if zlib.crc32(CURRENT_CASE_SEED.encode()) % 4 == 0:
        from amaranth.hdl import Fragment
        Fragment.get(top, None)
        if mon is not None:
            mon.count("runs_on_second_elaboration")
    async def wrapped(ctx):
        try:
            await bench(ctx)
        except Stop:
            pass

    design = top
    if isinstance(top, Top) and zlib.crc32(("plat:" + CURRENT_CASE_SEED).encode()) % 6 == 0:
        # what every FPGA build does: elaborate(platform) with a platform object that reports a (slow) default clock.
        # The hardware a component yields must not depend on it
        from amaranth.hdl import Fragment as _Fragment
        design = _Fragment.get(top, PlatformStandIn())
        if mon is not None:
            mon.count("runs_elaborated_with_a_platform_object")
    try:
        sim = Simulator(design)
        sim.add_clock(1e-6)
        sim.add_testbench(wrapped)
        sim.run()
    except Exception as e:
        if not (isinstance(top, Top) and top.reset_less and mon is not None and not mon.counters.get("cycles_started")):
            raise
        # the design could not be built in a reset-less domain: does it build in an ordinary one?
        from amaranth.hdl import Fragment
        top.reset_less = False
        try:
            Fragment.get(top, None)
        except Exception:
            raise e
        mon.violations.append({"monitor": "elaborates_in_reset_less_domain", "mechanism": "reset-less-domain",
                               "msg": f"the design elaborates in an ordinary clock domain but not in one declared "
                                      f"reset_less: {type(e).__name__}: {str(e)[:200]}", "cycle": 0, "detail": {},
                               "trace_tail": []})


def decoy(rng, build, p=0.3):
    """With probability p, build (and elaborate) a throw-away twin of the component first - same class, same
    parameters, separate objects - so that anything instances share through class- or module-level state
    shows up in the monitored instance built afterwards. `build` is a zero-argument callable returning the
    component (or a tuple whose first element is the component)."""
    if rng.random() >= p:
        return False
    from amaranth.hdl import Fragment
    twin = build()
    comp = twin[0] if isinstance(twin, tuple) else twin
    try:
        Fragment.get(Top({"decoy": comp}), None)
    except Exception:
        pass          # whatever the twin does is judged on the monitored instance, not here
    return True


def decoy_after(rng, build, p=0.3):
    """With probability p, construct (not elaborate) another instance with DIFFERENT parameters after the monitored
    one was constructed and before it is elaborated: per-class configuration must not leak between instances."""
    if rng.random() >= p:
        return None
    try:
        return build()
    except (ValueError, TypeError):      # a refusal of the other instance's parameters is not this case's business
        return None


def spell_features(rng, feats):
    """The same feature set, spelled the way callers may spell it: strings or wishbone.Feature members (or a mix), in a
    set, frozenset, list or tuple. Every spelling denotes the same signature."""
    from amaranth_soc.wishbone import Feature
    mode = rng.choice(["str", "str", "enum", "enum", "mix"])
    items = []
    for f in sorted(f if isinstance(f, str) else f.value for f in feats):
        as_enum = mode == "enum" or (mode == "mix" and rng.random() < 0.5)
        items.append(Feature(f) if as_enum else f)
    return rng.choice([set, frozenset, list, tuple])(items)


# Documented defaults of the public constructors and methods (from the docstrings of amaranth-soc, not read from
# the live signatures: a changed default has to show). A value may be a callable taking the other arguments.
DEFAULTS = {
    "MemoryMap": {"alignment": 0},
    "add_resource": {"addr": None, "alignment": None},
    "add_window": {"name": None, "addr": None, "sparse": None},
    "csr.Decoder": {"alignment": 0},
    "csr.Decoder.add": {"name": None, "addr": None},
    "csr.Multiplexer": {"shadow_overlaps": None},
    "csr.Builder": {"granularity": 8},
    "csr.Builder.add": {"offset": None},
    "action": {"init": 0},
    "csr.EventMonitor": {"trigger": "level", "alignment": 0, "name": None},
    "WishboneCSRBridge": {"name": None},
    "event.Source": {"trigger": "level"},
    "event.Monitor": {"trigger": "level"},
    "gpio.Peripheral": {"input_stages": 2},
    "wishbone": {"granularity": lambda kw: kw.get("data_width"), "features": frozenset(), "alignment": 0, "name": None},
    "wishbone.Decoder.add": {"name": None, "addr": None, "sparse": False},
    "WishboneSRAM": {"granularity": lambda kw: kw.get("data_width"), "writable": True, "init": ()},
}


def omit(rng, kind, **kwargs):
    """kwargs with some of the arguments that equal their documented default left out (the caller relies on the
    default), or - for granularity - spelled None."""
    out = dict(kwargs)
    for k, d in DEFAULTS[kind].items():
        if k not in out:
            continue
        dv = d(kwargs) if callable(d) else d
        v = out[k]
        same = (v is dv) or (type(v) is type(dv) and v == dv) or \
            (isinstance(v, (set, frozenset, tuple, list)) and isinstance(dv, (frozenset, tuple)) and len(v) == 0)
        if same and rng.random() < 0.5:
            if callable(d) and rng.random() < 0.5:
                out[k] = None
            else:
                del out[k]
    return out


class IntSub(int):
    """A user's own int subclass (argument-spelling ingredient)."""
    __slots__ = ()


def spell_int(rng, n, p=0.12):
    """The integer `n` as a caller may legitimately spell it: a plain int, a bool (for 0/1), an IntEnum member
    or another int subclass. Anything that is not a plain int, or with probability 1-p, is returned as is."""
    if type(n) is not int or rng.random() >= p:
        return n
    form = rng.choice(["sub", "enum", "bool" if n in (0, 1) else "sub"])
    if form == "bool":
        return bool(n)
    if form == "enum":
        import enum
        return enum.IntEnum("Arg", {"V": n}).V
    return IntSub(n)


class StrSub(str):
    """A user's own str subclass (argument-spelling ingredient)."""
    __slots__ = ()


def spell_str(rng, text, p=0.1):
    """The string `text` as a caller may legitimately spell it: the plain str, a member of a `class X(str, Enum)`
    enumeration whose value it is (equal to and hashing like the plain string, but with another str()/repr()), or
    another str subclass."""
    if type(text) is not str or rng.random() >= p:
        return text
    if rng.random() < 0.6:
        import enum
        return enum.Enum("RegName", {"MEMBER": text}, type=str).MEMBER
    return StrSub(text)


def spell_bool(rng, b, p=0.3):
    """A flag as a caller may spell it: the bool itself, or a truthy/falsy int or IntEnum member of the same truth."""
    if type(b) is not bool or rng.random() >= p:
        return b
    import enum
    return rng.choice([int(b), IntSub(int(b)), enum.IntEnum("Flag", {"OFF": 0, "ON": 1})(int(b))])


def bits(rng, width):
    return rng.getrandbits(width) if width > 0 else 0


def biased_bits(rng, width):
    """Random value with extra weight on 0, all-ones, single-bit patterns."""
    if width <= 0:
        return 0
    r = rng.random()
    if r < 0.08:
        return 0
    if r < 0.16:
        return (1 << width) - 1
    if r < 0.24:
        return 1 << rng.randrange(width)
    return rng.getrandbits(width)
