# amaranth: UnusedElaboratable=no
# Run as a script (python vmon/toplevel_script.py): every call below is made at MODULE LEVEL, the way a user's
# build script or a REPL session makes it - with the shallowest possible Python call stack. Prints one JSON line.
import json, os, sys, warnings
warnings.filterwarnings("ignore")
sys.path.insert(0, os.environ["VERIF_REPO"])
from amaranth import Module, unsigned
from amaranth.lib import wiring
from amaranth.lib.wiring import flipped
from amaranth_soc import csr, event, gpio, wishbone
from amaranth_soc.csr import action
from amaranth_soc.csr.wishbone import WishboneCSRBridge
from amaranth_soc.csr.event import EventMonitor
from amaranth_soc.memory import MemoryMap
from amaranth_soc.wishbone.sram import WishboneSRAM
failures, done = [], 0
sigs = [csr.Signature(addr_width=4, data_width=8), csr.Element.Signature(8, "rw"), csr.FieldPort.Signature(unsigned(3), "rw"),
        wishbone.Signature(addr_width=4, data_width=32, granularity=8, features={"err", "stall"}),
        wishbone.Signature(addr_width=0, data_width=8), event.Source.Signature(trigger="rise"), gpio.PinSignature()]
i = 0
while i < len(sigs):
    s = sigs[i]; i += 1
    try: a = s.create(); done += 1
    except Exception as e: failures.append(f"{type(s).__qualname__}.create(): {type(e).__name__}: {e}"); a = None
    try: b = s.create(path=("port", 0)); done += 1
    except Exception as e: failures.append(f"{type(s).__qualname__}.create(path=...): {type(e).__name__}: {e}"); b = None
    try: c = s.flip().create(path=("peer",)); done += 1
    except Exception as e: failures.append(f"{type(s).__qualname__}.flip().create(): {type(e).__name__}: {e}"); c = None
    if a is not None and not (a.signature == s): failures.append(f"{type(s).__qualname__}: create().signature != original")
    if b is not None and c is not None:
        try: wiring.connect(Module(), b, c); done += 1
        except Exception as e: failures.append(f"{type(s).__qualname__}: connect(create(), flip().create()): {type(e).__name__}: {e}")
try: i1 = csr.Interface(addr_width=4, data_width=8); i2 = wishbone.Interface(addr_width=4, data_width=32, granularity=8); i3 = event.Source(trigger="fall"); e1 = csr.Element(8, "rw"); done += 4
except Exception as e: failures.append(f"interface constructors: {type(e).__name__}: {e}")
try:
    sram = WishboneSRAM(size=16, data_width=32, granularity=8); peer = sram.wb_bus.signature.flip().create(); wiring.connect(Module(), peer, sram.wb_bus); done += 1
except Exception as e: failures.append(f"initiator for WishboneSRAM.wb_bus: {type(e).__name__}: {e}")
try:
    dec = wishbone.Decoder(addr_width=8, data_width=32, granularity=8, features={"err"}); peer = dec.bus.signature.flip().create(); wiring.connect(Module(), peer, dec.bus); done += 1
except Exception as e: failures.append(f"initiator for wishbone.Decoder.bus: {type(e).__name__}: {e}")
try:
    arb = wishbone.Arbiter(addr_width=8, data_width=32, granularity=8); tgt = flipped(arb.bus.signature.create()); wiring.connect(Module(), arb.bus, tgt); done += 1
except Exception as e: failures.append(f"target for wishbone.Arbiter.bus: {type(e).__name__}: {e}")
try:
    cdec = csr.Decoder(addr_width=8, data_width=8); peer = cdec.bus.signature.flip().create(); wiring.connect(Module(), peer, cdec.bus); done += 1
except Exception as e: failures.append(f"initiator for csr.Decoder.bus: {type(e).__name__}: {e}")
try:
    g = gpio.Peripheral(pin_count=4, addr_width=4, data_width=8); peer = g.bus.signature.flip().create(); wiring.connect(Module(), peer, g.bus); done += 1
except Exception as e: failures.append(f"initiator for gpio.Peripheral.bus: {type(e).__name__}: {e}")
try:
    em = event.EventMap(); em.add(event.Source(path=("a",))); mon = EventMonitor(em, data_width=8); peer = mon.bus.signature.flip().create(); wiring.connect(Module(), peer, mon.bus); done += 1
except Exception as e: failures.append(f"initiator for csr.EventMonitor.bus: {type(e).__name__}: {e}")
try:
    cb = csr.Interface(addr_width=4, data_width=8, path=("csr",)); cb.memory_map = MemoryMap(addr_width=4, data_width=8); br = WishboneCSRBridge(cb, data_width=32); peer = br.wb_bus.signature.flip().create(); wiring.connect(Module(), peer, br.wb_bus); done += 1
except Exception as e: failures.append(f"initiator for WishboneCSRBridge.wb_bus: {type(e).__name__}: {e}")
try:
    reg = csr.Register({"f": csr.Field(action.RW, 8)}, access="rw"); b_ = csr.Builder(addr_width=4, data_width=8); b_.add("r", reg); bridge = csr.Bridge(b_.as_memory_map()); peer = bridge.bus.signature.flip().create(); wiring.connect(Module(), peer, bridge.bus); done += 1
except Exception as e: failures.append(f"initiator for csr.Bridge.bus: {type(e).__name__}: {e}")
print(json.dumps({"done": done, "failures": failures}))
