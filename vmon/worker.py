# amaranth: UnusedElaboratable=no
"""Shard worker: generates and runs cases idx = shard (mod nshards), one JSON line per case."""
import argparse
import hashlib
import json
import os
import random
import sys
import traceback

from vmon import env


def repo_frames(tb):
    """Frames of a traceback that lie in the repository under test."""
    out = []
    while tb is not None:
        code = tb.tb_frame.f_code
        fn = os.path.realpath(code.co_filename)
        if fn.startswith(os.path.join(env.REPO, "amaranth_soc") + os.sep):
            out.append((fn, tb.tb_lineno, getattr(code, "co_qualname", code.co_name)))
        tb = tb.tb_next
    return out


def crash_violation(exc):
    """Turn an exception that escaped from repository code into a violation record."""
    frames = repo_frames(exc.__traceback__)
    if not frames:
        return None
    fn, lineno, qualname = frames[-1]
    rel = os.path.relpath(fn, env.REPO)
    return {
        "monitor": "crash",
        "mechanism": f"crash:{type(exc).__name__}:{rel}:{qualname}",
        "msg": f"{type(exc).__name__}: {str(exc)[:300]} (in {rel}:{lineno} {qualname})",
        "detail": {"traceback": traceback.format_exception(exc)[-12:]},
    }


def case_key(summary):
    return hashlib.sha1(json.dumps(summary, sort_keys=True, default=str).encode()).hexdigest()[:16]


def run_one(prop, case, idx):
    from vmon import simkit
    simkit.CURRENT_CASE_SEED = str(case.get("stim_seed", ""))
    try:
        r = prop.run_case(case)
    except RecursionError as e:  # deep recursion in repo code: report, do not die
        v = crash_violation(e)
        if v is None:
            raise
        r = {"violations": [v], "counters": {"crashes": 1}}
    except Warning:
        # warnings-as-errors shard: the library warned and nothing in this workload handles a warning raised as an error
        # (only the checks that judge refusals do): the case is abandoned, not judged
        r = {"violations": [], "counters": {"cases_abandoned_on_a_library_warning": 1}}
    except Exception as e:
        v = crash_violation(e)
        if v is None:
            raise
        r = {"violations": [v], "counters": {"crashes": 1}}
    r.setdefault("violations", [])
    r.setdefault("counters", {})
    r.setdefault("bins", {})
    r.setdefault("nontrivial", False)
    r.setdefault("summary", case.get("summary", {k: v for k, v in case.items() if k != "stim"}))
    r.setdefault("key", case_key(r["summary"]))
    r["bins"] = {k: sorted(set(v)) for k, v in r["bins"].items()}
    r["idx"] = idx
    if r["violations"]:
        r["case"] = case
    return r


def main():
    ap = argparse.ArgumentParser()
    ap.add_argument("prop")
    ap.add_argument("--tier", required=True)
    ap.add_argument("--seed", type=int, required=True)
    ap.add_argument("--shard", required=True)
    ap.add_argument("--cases", type=int, required=True)
    args = ap.parse_args()
    from vmon.cli import load_prop
    k, n = map(int, args.shard.split("/"))
    try:
        prop = load_prop(args.prop)
    except Exception as e:
        # importing the library itself failed inside the library (in this interpreter's mode: -OO, warnings as errors,
        # this string-hash seed): nothing can be built or elaborated - a violation of every property, reported once
        v = crash_violation(e)
        if v is None:
            raise
        v["monitor"], v["mechanism"] = "library_import", "import:" + v["mechanism"]
        case = {"kind": "import", "stim_seed": f"{args.prop}:{args.seed}:{k}:stim", "tier": args.tier}
        sys.stdout.write(json.dumps({"violations": [v], "counters": {"crashes": 1}, "bins": {}, "nontrivial": False,
                                     "summary": {"kind": "import"}, "key": "import", "idx": k, "case": case}, default=str) + "\n")
        sys.stdout.flush()
        return
    for idx in range(k, args.cases, n):
        rng = random.Random(f"{prop.ID}:{args.seed}:{idx}")
        case = prop.gen_case(rng, args.tier, idx)
        if args.tier == "thorough" and idx in (11, 1011) and isinstance(case.get("cycles"), int) and \
                prop.ID not in ("C08", "C09") and not case.get("kind") in ("api", "subword"):
            # soak: two cases of every thorough run of a simulated property last beyond 2**16 cycles, so that anything
            # counting cycles or operations behind the scenes (a watchdog, a wrap-around) has time to show
            case["cycles"] = 30000 if prop.ID == "C16" else 70000
            case["soak"] = True
        case.setdefault("stim_seed", f"{prop.ID}:{args.seed}:{idx}:stim")
        case["tier"] = args.tier
        r = run_one(prop, case, idx)
        sys.stdout.write(json.dumps(r, default=str) + "\n")
        sys.stdout.flush()


if __name__ == "__main__":
    main()
