"""Generic runtime sanitizers (DESIGN.md section 2).

* judge_exception(): exception-class + explicit-raise sanitizer. Classifies an exception that escaped a
  repository call as an intended refusal or as an internal error.
* StepCounter: sys.monitoring PY_START counter over code objects of amaranth_soc; turns non-termination
  into a deterministic verdict and records which anchor functions were reached.
"""
import ast
import functools
import os
import sys
import traceback

from vmon import env

SOC_DIR = os.path.join(env.REPO, "amaranth_soc") + os.sep


class StepBound(Exception):
    """Raised from the monitoring callback when a call exceeds its logical step bound."""


class StepCounter:
    TOOL = 4          # a free sys.monitoring tool id (0-5; 2 = profiler, 1 = coverage are reserved names)

    def __init__(self, limit):
        self.limit = limit
        self.steps = 0
        self.reach = {}
        self.active = False

    def __enter__(self):
        mon = sys.monitoring
        try:
            mon.use_tool_id(self.TOOL, "vmon-steps")
        except ValueError:
            mon.free_tool_id(self.TOOL)
            mon.use_tool_id(self.TOOL, "vmon-steps")

        def on_start(code, offset):
            if not code.co_filename.startswith(SOC_DIR):
                return mon.DISABLE
            self.steps += 1
            q = getattr(code, "co_qualname", code.co_name)
            self.reach[q] = self.reach.get(q, 0) + 1
            if self.steps > self.limit:
                self.steps = -10 ** 12      # raise once
                raise StepBound(f"more than {self.limit} function entries in amaranth_soc; last: {q}")

        def on_jump(code, offset, dest):
            # loop iterations inside repository code that call nothing would otherwise be invisible
            if not code.co_filename.startswith(SOC_DIR):
                return mon.DISABLE
            if dest > offset:
                return None
            self.steps += 1
            if self.steps > self.limit:
                self.steps = -10 ** 12
                q = getattr(code, "co_qualname", code.co_name)
                raise StepBound(f"more than {self.limit} function entries / backward jumps in amaranth_soc; last: {q}")

        mon.register_callback(self.TOOL, mon.events.PY_START, on_start)
        mon.register_callback(self.TOOL, mon.events.JUMP, on_jump)
        mon.register_callback(self.TOOL, mon.events.BRANCH, on_jump)
        mon.set_events(self.TOOL, mon.events.PY_START | mon.events.JUMP | mon.events.BRANCH)
        self.active = True
        return self

    def __exit__(self, *exc):
        mon = sys.monitoring
        mon.set_events(self.TOOL, 0)
        for ev in (mon.events.PY_START, mon.events.JUMP, mon.events.BRANCH):
            mon.register_callback(self.TOOL, ev, None)
        mon.free_tool_id(self.TOOL)
        mon.restart_events()
        self.active = False
        return False


@functools.lru_cache(maxsize=None)
def _raise_spans(filename):
    """[(first_line, last_line, class name or None)] for every raise statement of a source file."""
    try:
        tree = ast.parse(open(filename).read())
    except Exception:
        return []
    spans = []
    for node in ast.walk(tree):
        if isinstance(node, ast.Raise):
            name = None
            exc = node.exc
            if isinstance(exc, ast.Call):
                exc = exc.func
            if isinstance(exc, ast.Name):
                name = exc.id
            elif isinstance(exc, ast.Attribute):
                name = exc.attr
            spans.append((node.lineno, getattr(node, "end_lineno", node.lineno), name))
        if isinstance(node, ast.Assert):
            spans.append((node.lineno, getattr(node, "end_lineno", node.lineno), "AssertionError"))
    return spans


def innermost_frame(exc):
    tb = exc.__traceback__
    last = None
    while tb is not None:
        last = tb
        tb = tb.tb_next
    code = last.tb_frame.f_code
    return os.path.realpath(code.co_filename), last.tb_lineno, getattr(code, "co_qualname", code.co_name)


def innermost_soc_frame(exc):
    tb = exc.__traceback__
    found = None
    while tb is not None:
        code = tb.tb_frame.f_code
        fn = os.path.realpath(code.co_filename)
        if fn.startswith(SOC_DIR):
            found = (fn, tb.tb_lineno, getattr(code, "co_qualname", code.co_name))
        tb = tb.tb_next
    return found


def failing_opname(exc):
    """Name of the bytecode instruction at which the innermost Python frame failed."""
    import dis
    tb = exc.__traceback__
    last = None
    while tb is not None:
        last = tb
        tb = tb.tb_next
    try:
        for ins in dis.get_instructions(last.tb_frame.f_code):
            if ins.offset == last.tb_lasti:
                return ins.opname
    except Exception:
        pass
    return None


def judge_exception(exc):
    """Return (verdict, info). verdict:
         'refusal'         explicit raise of ValueError/TypeError whose class matches the raise statement
         'internal'        anything else (wrong class, assertion, crash inside message construction,
                           exception falling out of an ordinary expression, RecursionError, StepBound ...)
       info: dict(where, raised, stated) for the report and the mechanism key."""
    fn, lineno, qual = innermost_frame(exc)
    soc = innermost_soc_frame(exc)
    rel = os.path.relpath(soc[0], env.REPO) if soc else os.path.basename(fn)
    info = {"raised": type(exc).__name__, "where": f"{rel}:{soc[2] if soc else qual}", "message": str(exc)[:300],
            "innermost": f"{os.path.basename(fn)}:{lineno}:{qual}"}
    if not isinstance(exc, (ValueError, TypeError)):
        info["why"] = "exception class is neither ValueError nor TypeError"
        return "internal", info
    stated = None
    covered = False
    for lo, hi, name in _raise_spans(fn):
        if lo <= lineno <= hi:
            covered, stated = True, name
            break
    info["stated"] = stated
    op = failing_opname(exc)
    info["failing_instruction"] = op
    if op is not None and op not in ("RAISE_VARARGS", "RERAISE"):
        info["why"] = (f"the exception was produced by a {op} instruction, not by a raise statement"
                       + (f" (while building the message of the intended {stated})" if covered else ""))
        return "internal", info
    if not covered:
        info["why"] = "no raise statement covers the failing line: the exception fell out of an ordinary expression"
        return "internal", info
    if stated is not None and stated != type(exc).__name__ and stated not in ("e", "exc", "err"):
        info["why"] = (f"the raise statement constructs {stated} but {type(exc).__name__} escaped: building the "
                       f"refusal message itself crashed")
        return "internal", info
    if len(str(exc).strip()) < 8:
        info["why"] = "refusal carries no descriptive message"
        return "internal", info
    return "refusal", info
