"""Reference model of MemoryMap allocation and naming (C02, C18) and an independent address
translator over the public non-recursive queries (C03).

The model mirrors one live MemoryMap. For every call the harness asks the model for a
*prediction* first, performs the call on the real object, and then lets the model judge
what happened:

    REFUSE   the call must raise (ValueError/TypeError) and change nothing
    ACCEPT   the call must succeed; start address predicted exactly, length lower-bounded
    MAY      either outcome is within the property; if it succeeds the constraints
             (start if known, minimum length) still apply

The generic invariants (pairwise disjoint, in bounds, ascending, reported exactly) are checked
against the live object after every call irrespective of the prediction.
"""

REFUSE, ACCEPT, MAY = "REFUSE", "ACCEPT", "MAY"


def align_up(v, a):
    m = 1 << a
    return (v + m - 1) // m * m


def valid_name(name):
    if isinstance(name, str):
        name = (name,)
    if not isinstance(name, tuple) or len(name) == 0:
        return None
    for part in name:
        if isinstance(part, str) and part:
            continue
        if isinstance(part, int) and part >= 0:     # int subclasses included (bool, IntEnum members)
            continue
        return None
    return tuple(name)


def names_conflict(a, b):
    m = min(len(a), len(b))
    # equality of parts is Python equality: 0 != '0', but an IntEnum member, a bool or another int subclass equals
    # the int of the same value, and a str-mixin Enum member equals its string value
    return all(x == y for x, y in zip(a[:m], b[:m]))


class Pred:
    def __init__(self, kind, reason, start=None, minlen=None):
        self.kind, self.reason, self.start, self.minlen = kind, reason, start, minlen

    def __repr__(self):
        return f"{self.kind}({self.reason}, start={self.start}, minlen={self.minlen})"


class MapModel:
    def __init__(self, addr_width, data_width, alignment=0, label="m"):
        self.aw, self.dw, self.align = addr_width, data_width, alignment
        self.label = label
        self.items = []          # dict(kind, start, end, ratio, key, name, child)
        self.cursor = 0
        self.frozen = False
        self.names = set()       # visible names, as tuples
        self.keys = set()        # ids of resources / windows already added

    # ---- helpers
    def name_free(self, name):
        return not any(names_conflict(name, n) for n in self.names)

    def overlaps(self, start, end):
        return any(start < it["end"] and it["start"] < end for it in self.items)

    def in_bounds(self, start, end):
        return start <= (1 << self.aw) and end <= (1 << self.aw)

    # ---- predictions
    def predict_add_resource(self, key, is_component, name, size, addr, alignment):
        if self.frozen:
            return Pred(REFUSE, "frozen")
        if not is_component:
            return Pred(REFUSE, "not-a-component")
        if key in self.keys:
            return Pred(REFUSE, "already-added")
        vn = valid_name(name)
        if vn is None:
            return Pred(REFUSE, "bad-name")
        if not self.name_free(vn):
            return Pred(REFUSE, "name-conflict")
        if alignment is not None and (not isinstance(alignment, int) or isinstance(alignment, bool)
                                      or alignment < 0):
            return Pred(REFUSE, "bad-alignment")
        eff = max(alignment or 0, self.align)
        explicit_quirk = False
        if addr is not None:
            if not isinstance(addr, int) or isinstance(addr, bool) or addr < 0:
                return Pred(REFUSE, "bad-address")
            if addr % (1 << self.align):
                return Pred(REFUSE, "explicit-address-misaligned-to-map")
            if addr % (1 << eff):
                explicit_quirk = True       # multiple of the map's but not of the per-call alignment
            start = addr
        else:
            start = align_up(self.cursor, eff)
        if not isinstance(size, int) or isinstance(size, bool) or size < 0:
            return Pred(REFUSE, "bad-size")
        length = align_up(max(size, 1), eff)
        if not self.in_bounds(start, start + length):
            return Pred(REFUSE, "out-of-bounds")
        if self.overlaps(start, start + length):
            return Pred(REFUSE, "overlap")
        if addr is not None:
            return Pred(MAY, "explicit-quirk" if explicit_quirk else "explicit", start, length)
        return Pred(ACCEPT, "implicit", start, length)

    def frozen_by_parent(self, parent):
        """True if this map is already a window of `parent` (adding it again is only the duplicate case)."""
        return any(it["kind"] == "win" and it.get("child") is self for it in parent.items)

    def predict_add_window(self, key, is_map, child, name, addr, sparse):
        """child: the MapModel of the window (None if not a map)."""
        if not is_map:
            return Pred(REFUSE, "not-a-map")
        if self.frozen:
            return Pred(REFUSE, "frozen")
        if key in self.keys:
            return Pred(REFUSE, "already-added")
        if child.dw > self.dw:
            return Pred(REFUSE, "window-wider")
        if child.dw != self.dw:
            if sparse is None:
                return Pred(REFUSE, "mode-unspecified")
            if not sparse and self.dw % child.dw != 0:
                return Pred(REFUSE, "not-a-multiple")
        if name is not None:
            vn = valid_name(name)
            if vn is None:
                return Pred(REFUSE, "bad-name")
            if not self.name_free(vn):
                return Pred(REFUSE, "name-conflict")
        else:
            if any(not self.name_free(n) for n in child.names):
                return Pred(REFUSE, "name-conflict-absorbed")
        ratio = 1 if sparse else self.dw // child.dw
        if ratio & (ratio - 1):
            return Pred(REFUSE, "ratio-not-pow2")
        if ratio > (1 << child.align):
            return Pred(REFUSE, "ratio-exceeds-window-alignment")
        span = (1 << child.aw) // ratio
        if addr is not None and (not isinstance(addr, int) or isinstance(addr, bool) or addr < 0):
            return Pred(REFUSE, "bad-address")
        if addr is not None and addr % (1 << self.align):
            return Pred(REFUSE, "explicit-address-misaligned-to-map")
        if ratio == 1:
            eff = max(self.align, child.aw)
            length = align_up(max(span, 1), eff)
            start = addr if addr is not None else align_up(self.cursor, eff)
            if not self.in_bounds(start, start + length):
                return Pred(REFUSE, "out-of-bounds")
            if self.overlaps(start, start + length):
                return Pred(REFUSE, "overlap")
            if addr is not None:
                return Pred(MAY, "explicit" if addr % (1 << eff) == 0 else "explicit-quirk", start, length)
            return Pred(ACCEPT, "implicit", start, length)
        # dense, ratio > 1: the numeric alignment rule is not claimed
        minlen = max(span, 1)
        if addr is not None:
            if not self.in_bounds(addr, addr + minlen):
                return Pred(REFUSE, "out-of-bounds")
            if self.overlaps(addr, addr + minlen):
                return Pred(REFUSE, "overlap")
            return Pred(MAY, "dense-explicit", addr, minlen)
        return Pred(MAY, "dense-implicit", None, minlen)

    def predict_align_to(self, alignment):
        if not isinstance(alignment, int) or isinstance(alignment, bool) or alignment < 0:
            return Pred(REFUSE, "bad-alignment")
        return Pred(ACCEPT, "align", align_up(self.cursor, max(alignment, self.align)))

    # ---- commits (after the real call succeeded and was judged)
    def commit_resource(self, key, name, start, end):
        self.items.append(dict(kind="res", start=start, end=end, ratio=1, key=key,
                               name=valid_name(name), child=None))
        self.items.sort(key=lambda it: it["start"])
        self.keys.add(key)
        self.names.add(valid_name(name))
        self.cursor = end

    def commit_window(self, key, child, name, start, end, ratio):
        vn = valid_name(name) if name is not None else None
        self.items.append(dict(kind="win", start=start, end=end, ratio=ratio, key=key, name=vn,
                               child=child))
        self.items.sort(key=lambda it: it["start"])
        self.keys.add(key)
        if vn is None:
            self.names |= child.names
        else:
            self.names.add(vn)
        child.frozen = True
        self.cursor = end

    def commit_align(self, value):
        self.cursor = value

    # ---- expected query results
    def expected_resources(self):
        return [(it["key"], it["name"], (it["start"], it["end"])) for it in self.items if it["kind"] == "res"]

    def expected_windows(self):
        return [(it["key"], it["name"], (it["start"], it["end"], it["ratio"]))
                for it in self.items if it["kind"] == "win"]


# --------------------------------------------------------------------------------------
# live-object helpers

def live_resources(m):
    return [(id(r), tuple(n), tuple(rng)) for r, n, rng in m.resources()]


def live_windows(m):
    return [(id(w), None if n is None else tuple(n), tuple(rng)) for w, n, rng in m.windows()]


def live_all(m):
    return [(id(i.resource), tuple(tuple(p) for p in i.path), i.start, i.end, i.width)
            for i in m.all_resources()]


def check_invariants(mon, m, label="map"):
    """Structural invariants of one live map, from its public queries only."""
    items = [(s, e, "res") for _r, _n, (s, e) in m.resources()] + \
            [(s, e, "win") for _w, _n, (s, e, _r) in m.windows()]
    res_starts = [s for _r, _n, (s, e) in m.resources()]
    win_starts = [s for _w, _n, (s, e, _r) in m.windows()]
    mon.ok("inv_sorted", res_starts == sorted(res_starts) and win_starts == sorted(win_starts),
           f"{label}: resources()/windows() not in ascending address order: {res_starts} {win_starts}")
    items.sort()
    prev_end = 0
    for s, e, k in items:
        mon.ok("inv_bounds", 0 <= s < e <= (1 << m.addr_width),
               f"{label}: {k} range [{s},{e}) outside [0, 2**{m.addr_width}) or empty")
        mon.ok("inv_disjoint", s >= prev_end, f"{label}: {k} range [{s},{e}) overlaps a range ending at {prev_end}")
        mon.ok("inv_aligned", s % (1 << m.alignment) == 0 and (e - s) % (1 << m.alignment) == 0 or k == "win",
               f"{label}: {k} range [{s},{e}) not aligned to the map alignment {m.alignment}")
        prev_end = e


# --------------------------------------------------------------------------------------
# C03: independent translator using only resources() / windows() and plain arithmetic

def translate_tree(m):
    """Return [(id(resource), path, start, end, width)] in ascending order for map m, computed from
    the non-recursive queries of every map in the tree: a resource at local [s, e) behind a window
    at base b with ratio r appears at [b + s/r, b + e/r), width * r, window name prefixed."""
    entries = []
    for r, n, (s, e) in m.resources():
        entries.append((s, [(id(r), (tuple(n),), s, e, m.data_width)]))
    for w, n, (b, _e, ratio) in m.windows():
        sub = []
        for rid, path, s, e, width in translate_tree(w):
            p = path if n is None else (tuple(n),) + path
            sub.append((rid, p, b + s // ratio, b + e // ratio, width * ratio))
        entries.append((b, sub))
    entries.sort(key=lambda t: t[0])
    out = []
    for _b, sub in entries:
        out.extend(sub)
    return out
