"""Cycle-accurate reference model of what a CSR register multiplexer must do at its ports
(properties C04 / C05), plus the F3 divergence predicate.

The model knows only the register layout reported by memory_map.resources() (start, end, width,
access). It has no notion of shadow registers or sharing limits, so every sharing limit must
produce the identical observable trace.

Per cycle the harness calls

    exp = model.expect(inp, reg_values)      # before the clock edge, with this cycle's inputs
    ... compare exp with the sampled outputs ...
    model.advance(inp, reg_values)           # the clock edge

`inp` = dict(addr, r_stb, w_stb, w_data); reg_values[i] = value register i presents on
element.r_data in this cycle.

exp fields:
    r_stb[i]   (all sequences, S1)  1 iff the first chunk of readable register i is being read
    w_stb[i]   (all sequences, S2)  1 iff the previous cycle wrote the last address of writable i
    r_data     ('zero', 0)          S3: previous cycle did not read a chunk of a readable register
               ('first', v)         previous cycle read chunk 0 of a register: slice 0 of its value then
               ('snap', v)          A1: previous cycle read chunk k>0 inside a conforming transaction
               ('unknown', None)    chunk k>0 read outside a conforming transaction: nothing asserted
    w_data[i]  {k: value}           A2: when w_stb[i] fires, the chunks written in the conforming
                                    transaction that ends here and the values written
"""


def ceil_log2(n):
    return 0 if n <= 1 else (n - 1).bit_length()


def f3_unsatisfiable(ranges, overlaps):
    """True iff Multiplexer._Shadow.prepare() can never balance `ranges` under `overlaps`:
    two (register, address) pairs that share a shadow offset when *all* address bits are used
    share it at every shadow size, so doubling never helps (known finding F3)."""
    if overlaps is None:
        return False
    count = {}
    for s, e in ranges:
        rs = 1 << ceil_log2(e - s)
        for a in range(s, e):
            off = (s & ~(rs - 1)) | (a & (rs - 1))
            count[off] = count.get(off, 0) + 1
    return any(n > overlaps + 1 for n in count.values())


class MuxModel:
    def __init__(self, regs, data_width):
        """regs: list of dict(start, end, width, access) with access in 'r', 'w', 'rw'."""
        self.regs = regs
        self.dw = data_width
        self.by_addr = {}
        for i, r in enumerate(regs):
            for a in range(r["start"], r["end"]):
                self.by_addr[a] = (i, a - r["start"])
        self.prev = None          # previous cycle's (inp, reg_values)
        # transaction tracker (conformance): register index, last chunk accessed
        self.rtxn = self.wtxn = None   # dict(reg, last, capture (value|None), written {k: v}) per direction
        self.pending_w = None     # A2 payload to compare when w_stb fires next cycle

    def reset(self):
        """Warm reset of the multiplexer at this clock edge: no read or write is in flight any more, the shadow
        registers hold nothing (the driver has to start its next transaction from a first chunk)."""
        self.prev = None
        self.rtxn = self.wtxn = None
        self.pending_w = None
        self.prev_capture = None

    def readable(self, i):
        return "r" in self.regs[i]["access"]

    def writable(self, i):
        return "w" in self.regs[i]["access"]

    def slice(self, value, k):
        return (value >> (k * self.dw)) & ((1 << self.dw) - 1)

    def expect(self, inp, reg_values):
        exp = {"r_stb": {}, "w_stb": {}, "w_data": {}, "r_data": ("zero", 0)}
        hit = self.by_addr.get(inp["addr"])
        for i, r in enumerate(self.regs):
            if self.readable(i):
                exp["r_stb"][i] = int(bool(inp["r_stb"]) and inp["addr"] == r["start"])
            if self.writable(i):
                exp["w_stb"][i] = 0
        if self.prev is not None:
            p_inp, p_vals = self.prev
            p_hit = self.by_addr.get(p_inp["addr"])
            if p_inp["w_stb"] and p_hit is not None:
                i, k = p_hit
                if self.writable(i) and p_inp["addr"] == self.regs[i]["end"] - 1:
                    exp["w_stb"][i] = 1
                    if self.pending_w is not None and self.pending_w[0] == i:
                        exp["w_data"][i] = self.pending_w[1]
            if p_inp["r_stb"] and p_hit is not None:
                i, k = p_hit
                if self.readable(i):
                    mask = (1 << self.regs[i]["width"]) - 1
                    if k == 0:
                        exp["r_data"] = ("first", self.slice(p_vals[i] & mask, 0))
                    elif self.prev_capture is not None:
                        exp["r_data"] = ("snap", self.slice(self.prev_capture & mask, k))
                    else:
                        exp["r_data"] = ("unknown", None)
        return exp

    def advance(self, inp, reg_values):
        """Clock edge: update the conformance trackers with this cycle's access.

        A read transaction and a write transaction are tracked separately: each is a run of strictly ascending chunk
        accesses in its own direction to one register, starting at chunk 0. Accesses in the other direction to the *same*
        register do not disturb it (byte-wise read-modify-write: read 0, write 0, read 1, write 1 ... is one register at a
        time in ascending address order); an access to another register or to an unmapped address ends both."""
        self.pending_w = None
        self.prev_capture = None
        if inp["r_stb"] or inp["w_stb"]:
            hit = self.by_addr.get(inp["addr"])
            if hit is None:
                self.rtxn = self.wtxn = None          # unmapped access ends any transaction
            else:
                i, k = hit
                for name, active in (("rtxn", inp["r_stb"]), ("wtxn", inp["w_stb"])):
                    t = getattr(self, name)
                    if not active:
                        if t is not None and t["reg"] != i:
                            setattr(self, name, None)          # one register at a time
                        continue
                    if k == 0:
                        t = {"reg": i, "last": 0, "capture": None, "written": {}}
                    elif t is not None and t["reg"] == i and k > t["last"]:
                        t["last"] = k
                    else:
                        t = None                      # mid-register start, other register, not ascending
                    setattr(self, name, t)
                if inp["r_stb"] and self.rtxn is not None and self.readable(i):
                    if k == 0:
                        self.rtxn["capture"] = reg_values[i]
                    self.prev_capture = self.rtxn["capture"]
                if inp["w_stb"] and self.wtxn is not None and self.writable(i):
                    self.wtxn["written"][k] = inp["w_data"]
                    if inp["addr"] == self.regs[i]["end"] - 1:
                        self.pending_w = (i, dict(self.wtxn["written"]))
        self.prev = (dict(inp), list(reg_values))

    rtxn = wtxn = None
    prev_capture = None
