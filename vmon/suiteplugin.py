# amaranth: UnusedElaboratable=no
"""pytest plugin: the repository's own test-suite as one more workload under the monitors.

Loaded with `-p vmon.suiteplugin` by vmon/suitemon.py. The monitors are installed on the real classes (class-level
patches made before any test module is imported, so no reference is bound earlier) and only *record*: they never
raise into the code they observe, so a test passes or fails exactly as it would without them - except for the
deliberate perturbation of the C19 monitor, which elaborates every simulated design twice before the simulator
does (the test's own assertions then judge the third elaboration).

Which monitors are installed is chosen by $VMON_SUITE_MONITORS (comma separated property ids); the result
(counters, violations) is written to $VMON_SUITE_OUT as JSON at the end of the session.

Every invariant below is one the property states for *every* use of the library, so it must hold for whatever
the test-suite does with it, including its deliberately invalid calls.
"""
import collections
import functools
import json
import os

from vmon import env  # noqa: F401  (repository under test first on sys.path, origin asserted)
from vmon.sanitize import judge_exception

OUT = os.environ.get("VMON_SUITE_OUT")
MONS = set(filter(None, os.environ.get("VMON_SUITE_MONITORS", "").split(",")))

counters = collections.Counter()
violations = []
current_test = ["<collection>"]
failed_tests = []


def violation(prop, monitor, mechanism, msg):
    if len(violations) < 40:
        violations.append({"property": prop, "monitor": monitor, "mechanism": mechanism,
                           "msg": f"[{current_test[0]}] {msg}"[:600], "detail": {"test": current_test[0]}})


# ------------------------------------------------------------------------------------------- memory maps

def snap(m):
    return ([(id(r), tuple(n), tuple(rg)) for r, n, rg in m.resources()],
            [(id(w), None if n is None else tuple(n), tuple(rg)) for w, n, rg in m.windows()])


def prefix_related(a, b):
    k = min(len(a), len(b))
    return tuple(a[:k]) == tuple(b[:k])


def visible_names(m):
    names = [tuple(n) for _r, n, _rg in m.resources()]
    for w, n, _rg in m.windows():
        if n is None:
            names.extend(visible_names(w))
        else:
            names.append(tuple(n))
    return names


def walk_c02(m, what, out):
    counters["C02_walks"] += 1
    res, win = snap(m)
    limit = 1 << m.addr_width
    items = [(rg[0], rg[1], "resource") for _i, _n, rg in res] + [(rg[0], rg[1], "window") for _i, _n, rg in win]
    for lst, kind in ((res, "resources()"), (win, "windows()")):
        starts = [rg[0] for _i, _n, rg in lst]
        if starts != sorted(starts):
            violation("C02", "suite_sorted", "suite:not-ascending", f"{what}: {kind} not in ascending address order: {starts}")
    for s, e, kind in items:
        if not (0 <= s <= e <= limit):
            violation("C02", "suite_in_range", "suite:out-of-range", f"{what}: {kind} range [{s},{e}) outside [0,{limit})")
    solid = sorted((s, e) for s, e, _k in items if e > s)
    for (s0, e0), (s1, e1) in zip(solid, solid[1:]):
        if s1 < e0:
            violation("C02", "suite_disjoint", "suite:overlap", f"{what}: ranges [{s0},{e0}) and [{s1},{e1}) overlap")
    if out is not None and len(out) >= 2:
        if (out[0], out[1]) not in [(s, e) for s, e, _k in items]:
            violation("C02", "suite_reported", "suite:returned-range-not-reported",
                      f"{what}: returned range {tuple(out)[:2]} is not among the reported ranges")


def walk_c18(m, what):
    counters["C18_walks"] += 1
    names = visible_names(m)
    for i in range(len(names)):
        for j in range(i + 1, len(names)):
            if prefix_related(names[i], names[j]):
                violation("C18", "suite_prefix_free", "suite:names-not-prefix-free",
                          f"{what}: visible names {names[i]} and {names[j]} are equal / prefix / extension")
                return
    try:
        paths = [tuple(tuple(p) for p in ri.path) for ri in m.all_resources()]
    except Exception:
        return
    if len(set(paths)) != len(paths):
        violation("C18", "suite_paths_distinct", "suite:duplicate-paths", f"{what}: duplicate paths in all_resources(): {paths}")


def walk_c03(m, what):
    try:
        infos = list(m.all_resources())
    except Exception:
        return
    if len(infos) > 64:
        return
    counters["C03_walks"] += 1
    starts = [ri.start for ri in infos]
    if starts != sorted(starts):
        violation("C03", "suite_all_resources_sorted", "suite:all-resources-not-ascending", f"{what}: {starts}")
    for ri in infos:
        if ri.end <= ri.start:
            continue
        for a in {ri.start, ri.end - 1}:
            counters["C03_decodes"] += 1
            got = m.decode_address(a)
            if got is not ri.resource:
                violation("C03", "suite_decode", "suite:decode-disagrees",
                          f"{what}: all_resources() puts {ri.path} at [{ri.start},{ri.end}) but decode_address({a}) is {got!r}")
                return
        try:
            f = m.find_resource(ri.resource)
        except KeyError:
            f = None
        if f is None or (f.start, f.end, f.width, tuple(f.path)) != (ri.start, ri.end, ri.width, tuple(ri.path)):
            violation("C03", "suite_find", "suite:find-disagrees", f"{what}: find_resource() of {ri.path} disagrees with all_resources()")
            return


def install_memory_monitors():
    from amaranth_soc.memory import MemoryMap

    def wrap(name):
        orig = getattr(MemoryMap, name)

        @functools.wraps(orig)
        def monitored(self, *args, **kwargs):
            what = f"MemoryMap.{name}"
            try:
                before = snap(self)
            except Exception:
                return orig(self, *args, **kwargs)
            try:
                out = orig(self, *args, **kwargs)
            except Exception:
                counters["refusals_seen"] += 1
                try:
                    after = snap(self)
                except Exception:
                    after = None
                if {"C02", "C18"} & MONS and after != before:
                    violation("C02" if "C02" in MONS else "C18", "suite_atomic", "suite:refusal-not-atomic",
                              f"{what} raised but resources()/windows() changed")
                raise
            counters["accepted_calls_seen"] += 1
            try:
                if "C02" in MONS:
                    walk_c02(self, what, out if name != "align_to" else None)
                if "C18" in MONS:
                    walk_c18(self, what)
                if "C03" in MONS:
                    walk_c03(self, what)
            except Exception as e:        # a monitor must never alter the outcome of a test
                counters["monitor_errors"] += 1
                violations.append({"property": "*", "monitor": "suite_monitor_error", "mechanism": "suite:monitor-error",
                                   "msg": f"[{current_test[0]}] {what}: monitor raised {e!r}", "detail": {}})
            return out

        setattr(MemoryMap, name, monitored)

    for name in ("add_resource", "add_window", "align_to", "freeze"):
        wrap(name)


# ------------------------------------------------------------------------------------------- signatures

def install_signature_monitors():
    from amaranth_soc import csr, event, gpio, wishbone

    for cls in (csr.Signature, csr.Element.Signature, csr.FieldPort.Signature, wishbone.Signature,
                event.Source.Signature, gpio.PinSignature):
        if "create" not in cls.__dict__:
            continue

        def wrap(cls=cls):
            orig = cls.__dict__["create"]

            @functools.wraps(orig)
            def monitored(self, *args, **kwargs):
                out = orig(self, *args, **kwargs)
                counters["C20_creates"] += 1
                try:
                    ok = out.signature == self and self == out.signature
                except Exception:
                    ok = False
                if not ok:
                    violation("C20", "suite_create_roundtrip", f"suite:{cls.__qualname__}:create-roundtrip",
                              f"{cls.__module__}.{cls.__qualname__}.create(): the interface's signature does not equal {self!r}")
                return out

            setattr(cls, "create", monitored)

        wrap()


# ------------------------------------------------------------------------------------------- elaboration

def install_elaboration_monitors():
    from amaranth.back import rtlil
    from amaranth.hdl import DriverConflict
    from amaranth.lib import wiring
    from amaranth.sim import Simulator

    orig_init = Simulator.__init__

    @functools.wraps(orig_init)
    def monitored(self, toplevel, *args, **kwargs):
        texts = []
        for _ in range(2):
            try:
                try:
                    if not isinstance(toplevel, wiring.Component):
                        raise DriverConflict
                    texts.append(rtlil.convert(toplevel, emit_src=False))
                except DriverConflict:
                    # not a component, or one whose signature declares as input a member it drives itself
                    # (Register.element: directions of non-bus members are not part of C20): no ports at all
                    texts.append(rtlil.convert(toplevel, ports=[], emit_src=False))
            except Exception as e:
                verdict, info = judge_exception(e)
                counters["C19_pre_elaboration_failed"] += 1
                counters[f"C19_pre_elaboration_failed:{info['raised']}:{info['message'][:60]}"] += 1
                if verdict == "internal" and "amaranth_soc" in info["where"]:
                    violation("C19", "suite_elaboration_internal_error", f"suite:elaboration:{info['raised']}:{info['where']}",
                              f"elaboration #{len(texts) + 1} before simulation failed: {info['raised']}: {info['message']}")
                break
        if len(texts) == 2:
            counters["C19_designs_elaborated_twice_before_simulation"] += 1
            if texts[0] != texts[1]:
                violation("C19", "suite_rtlil_identical", "suite:rtlil-differs",
                          "two elaborations of the design under test give different RTLIL")
        return orig_init(self, toplevel, *args, **kwargs)

    Simulator.__init__ = monitored


# ------------------------------------------------------------------------------------------- pytest hooks

def pytest_configure(config):
    if {"C02", "C03", "C18"} & MONS:
        install_memory_monitors()
    if "C20" in MONS:
        install_signature_monitors()
    if "C19" in MONS:
        install_elaboration_monitors()


def pytest_runtest_setup(item):
    current_test[0] = item.nodeid.split("/")[-1]
    counters["tests_run"] += 1


def pytest_runtest_logreport(report):
    if report.when == "call" and report.failed:
        counters["tests_failed_under_monitors"] += 1
        failed_tests.append((report.nodeid.split("/")[-1], str(report.longrepr)[-400:]))


def pytest_sessionfinish(session, exitstatus):
    if OUT:
        with open(OUT, "w") as f:
            json.dump({"counters": dict(counters), "violations": violations, "failed_tests": failed_tests, "exitstatus": int(exitstatus)}, f)
