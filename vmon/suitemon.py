# amaranth: UnusedElaboratable=no
"""The repository's own test-suite as a workload: run it in a subprocess under vmon/suiteplugin.py.

    result = run_suite(["C02"])   ->  {"counters": {...}, "violations": [...], "status": "ran" | "absent" | "timeout" | "error"}

The suite is run from a scratch directory under /var/tmp (some tests write a VCD file into the current directory),
which is removed afterwards; nothing is written into the repository (no bytecode, no pytest cache).
"""
import json
import os
import shutil
import subprocess
import sys
import tempfile

from vmon import env


def _pytest(monitors, scratch, timeout):
    out = os.path.join(scratch, "result.json")
    e = dict(os.environ, PYTHONPATH=os.pathsep.join([env.REPO, env.VERIF]), PYTHONDONTWRITEBYTECODE="1", PYTHONHASHSEED="0",
             VERIF_REPO=env.REPO, VMON_SUITE_MONITORS=",".join(monitors), VMON_SUITE_OUT=out)
    cmd = [sys.executable, "-m", "pytest", "-q", "-p", "no:cacheprovider", "-p", "vmon.suiteplugin",
           "--rootdir", env.REPO, os.path.join(env.REPO, "tests")]
    try:
        p = subprocess.run(cmd, cwd=scratch, env=e, capture_output=True, text=True, timeout=timeout)
    except subprocess.TimeoutExpired:
        return None, "timeout"
    if not os.path.exists(out):
        return {"stdout": p.stdout[-600:], "stderr": p.stderr[-600:]}, "error"
    return json.load(open(out)), "ran"


def run_suite(monitors, timeout=900):
    if not os.path.isdir(os.path.join(env.REPO, "tests")):
        return {"counters": {}, "violations": [], "status": "absent"}
    scratch = tempfile.mkdtemp(prefix="vsuite_", dir="/var/tmp")
    try:
        res, status = _pytest(monitors, scratch, timeout)
        if status != "ran":
            return {"counters": {}, "violations": [], "status": status, "detail": res}
        violations = [v for v in res["violations"] if v.get("property") in set(monitors) | {"*"}]
        if res.get("failed_tests") and "C19" in monitors:
            # the C19 monitor elaborates every simulated design twice before the simulator does; a test that only
            # fails then is a test whose design does not behave the same on a later elaboration. Tests that fail
            # without the monitor as well say nothing about C19.
            base, bstatus = _pytest([], scratch, timeout)
            failing_anyway = {t for t, _ in base.get("failed_tests", [])} if bstatus == "ran" else None
            for t, why in res["failed_tests"]:
                if failing_anyway is not None and t not in failing_anyway:
                    violations.append({"property": "C19", "monitor": "suite_test_fails_after_reelaboration",
                                       "mechanism": f"suite:test-fails-after-reelaboration:{t.split('::')[0]}",
                                       "msg": f"{t} passes as shipped but fails when its design has been elaborated twice "
                                              f"before being simulated: {why[-300:]}", "detail": {"test": t}})
        return {"counters": res["counters"], "violations": violations, "status": "ran",
                "failed_tests": [t for t, _ in res.get("failed_tests", [])]}
    finally:
        shutil.rmtree(scratch, ignore_errors=True)


def suite_case(mon, monitors, required):
    """Run the suite under `monitors`, merge what it observed into the case monitor `mon`; `required` names the
    counters that have to be positive for the run to count as having observed anything."""
    r = run_suite(monitors)
    mon.count("suite_" + r["status"])
    for k, v in r["counters"].items():
        mon.count("suite_" + k, v)
    for v in r["violations"]:
        mon.violations.append({"monitor": v["monitor"], "mechanism": v["mechanism"], "msg": v["msg"], "detail": v.get("detail", {})})
    observed = r["status"] == "ran" and all(r["counters"].get(k, 0) > 0 for k in required)
    return mon.result(nontrivial=observed, summary={"kind": "suite", "monitors": monitors, "status": r["status"],
                                                    "tests_run": r["counters"].get("tests_run", 0)})


if __name__ == "__main__":
    print(json.dumps(run_suite(sys.argv[1].split(",")), indent=1)[:6000])
