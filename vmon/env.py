# amaranth: UnusedElaboratable=no
"""Process-wide environment: which tree is under test, warnings, import check.

Everything in vmon imports the repository through this module so that the code
being monitored is always the working tree at $VERIF_REPO (default /repo).
"""
import os
import sys
import warnings

REPO = os.path.realpath(os.environ.get("VERIF_REPO", "/repo"))
VERIF = os.path.dirname(os.path.dirname(os.path.abspath(__file__)))

# hooks guard: no source hooks exist, but checks run with the guard on so a
# future hook would be active (MANIFEST.hooks.guard).
os.environ.setdefault("AMARANTH_SOC_VERIF", "1")

if sys.path[0] != REPO:
    sys.path.insert(0, REPO)

warnings.filterwarnings("ignore")
sys.dont_write_bytecode = True
# Amaranth's Python simulator compiles expressions recursively; the OR-reduction chain of a multiplexer with a few
# hundred shadow chunks is deeper than the default limit (trusted-base limitation, not a property of the code
# under test). A logical step bound, not the recursion limit, is what detects runaway recursion (sanitize.py).
sys.setrecursionlimit(20000)

import amaranth_soc  # noqa: E402

if os.environ.get("VMON_WARNINGS_AS_ERRORS"):
    # `python -W error` for the library under test only: a warning issued by a statement of amaranth_soc is raised as an
    # exception at that statement (everything else - Amaranth's and the harness's own warnings - stays ignored)
    _soc_dir = os.path.join(REPO, "amaranth_soc") + os.sep
    _orig_warn = warnings.warn

    def _warn(message, category=None, stacklevel=1, *args, **kwargs):
        if os.path.realpath(sys._getframe(1).f_code.co_filename).startswith(_soc_dir):
            if isinstance(message, Warning):
                raise message
            raise (category or UserWarning)(message)
        return _orig_warn(message, category, stacklevel + 1, *args, **kwargs)

    warnings.warn = _warn

_real = os.path.realpath(amaranth_soc.__file__)
if not _real.startswith(REPO + os.sep):
    raise SystemExit(f"INCONCLUSIVE amaranth_soc imported from {_real}, not from {REPO}")

# Silence "UnusedElaboratable" noise: the harness builds many components it never
# elaborates (refused configurations, API-only histories).
try:
    from amaranth.hdl._ir import UnusedElaboratable  # noqa: E402
    warnings.simplefilter("ignore", UnusedElaboratable)
    from amaranth._unused import MustUse  # noqa: E402
    MustUse._MustUse__silence = True
except Exception:  # pragma: no cover
    pass
