# amaranth: UnusedElaboratable=no
"""C15 - Wishbone SRAM: one-cycle single acknowledge, memory semantics, select-gated writes.

Online trace monitor over the simulated wb_bus plus the whole memory image (simulator memory
access), against a reference memory model. All bus inputs are random on every cycle.
"""
from vmon import env  # noqa: F401
from vmon.simkit import Top, Mon, simulate, bits, biased_bits

from amaranth_soc.wishbone.sram import WishboneSRAM

ID = "C15"
RULE = ("cases = random SRAM geometry (size 2..256 granules, data width 8-64, granularity <= width, "
        "writable or read-only, random partial init image) x random per-cycle cyc/stb/we/adr/sel/dat_w; "
        "distinct = distinct geometry+init+stimulus seed; non-trivial = the run acknowledged at least one "
        "read of a word that had been changed by an earlier write (or, read-only: a read after an attempted "
        "write to the same word)")
ASSUMPTIONS = ["Amaranth simulator and lib.memory are faithful",
               "reference model: ack(c+1) = !ack(c) & cyc(c) & stb(c); write only in the request cycle"]
REQUIRED = ["ack_next", "read_data", "mem_image"]


def n_cases(tier):
    return 800 if tier == "quick" else 10000


def gen_case(rng, tier, idx):
    dw = rng.choice([8, 16, 32, 64])
    gran = rng.choice([g for g in (8, 16, 32, 64) if g <= dw])
    ratio = dw // gran
    sizes = [s for s in (2, 4, 8, 16, 32, 64, 128, 256, 1024) if s * gran >= dw]
    size = rng.choice(sizes[:5] if rng.random() < 0.7 else sizes)
    if rng.random() < 0.04:
        size = rng.choice([4096, 65536])
    depth = size * gran // dw
    n_init = rng.choice([0, depth, rng.randint(0, depth)]) if depth <= 1024 else rng.choice([0, 7, 300])
    init = [rng.getrandbits(dw) for _ in range(n_init)]
    return {
        "size": size, "data_width": dw, "granularity": gran,
        "writable": rng.random() < 0.75, "init": init,
        "cycles": (300 if tier == "quick" else 900) * (8 if rng.random() < 0.04 else 1),
        "style": rng.choice(["raw", "raw", "sticky", "b2b"]),
    }


def run_case(case):
    import random
    rng = random.Random(case["stim_seed"])
    dw, gran = case["data_width"], case["granularity"]
    nsel = dw // gran
    container = rng.choice(["list", "list", "tuple", "generator", "map", "iter"])
    init_arg = {"list": lambda v: list(v), "tuple": lambda v: tuple(v), "generator": lambda v: (x for x in v),
                "map": lambda v: map(int, v), "iter": lambda v: iter(v)}[container](case["init"])
    from vmon.simkit import decoy
    decoy(rng, lambda: WishboneSRAM(size=case["size"], data_width=dw, granularity=gran, writable=case["writable"],
                                    init=[(x ^ 0x5a) & ((1 << dw) - 1) for x in case["init"]]))
    late_init = rng.random() < 0.2
    depth = case["size"] * gran // dw
    from vmon.simkit import omit
    dut = WishboneSRAM(**omit(rng, "WishboneSRAM", size=case["size"], data_width=dw, granularity=gran,
                              writable=case["writable"], init=() if late_init else init_arg))
    from vmon.simkit import decoy_after
    other = decoy_after(rng, lambda: WishboneSRAM(size=case["size"] * 2, data_width=dw, granularity=gran,
                                                  writable=not case["writable"], init=[1, 2, 3][:depth]))
    if late_init:
        dut.init = list(case["init"])      # the image is set through the `init` property after construction
    bus = dut.wb_bus
    aw = len(bus.adr)
    (memres, _name, _rng), = list(bus.memory_map.resources())
    mem_data = memres.data
    extra_port = None
    if rng.random() < 0.25:
        # a second reader of the same memory (scan-out, debug port): requested on the memory object the SRAM publishes
        # as the resource of its memory map, before the design is built; its address wanders on its own
        extra_port = memres.read_port(domain=rng.choice(["comb", "sync"]))
    model = list(case["init"]) + [0] * (depth - len(case["init"]))
    mon = Mon()

    def init_history():
        """Before the design is built the image may be re-assigned, patched word by word, or an assignment may be
        refused; the memory must start from exactly what the `init` property reports (checked against a model)."""
        nonlocal model
        for _ in range(rng.choice([0, 0, 1, 2, 4])):
            op = rng.choice(["assign_short", "assign_full", "patch", "refused"])
            if op in ("assign_short", "assign_full"):
                n_ = depth if op == "assign_full" else rng.randint(0, depth)
                img = [rng.getrandbits(dw) for _ in range(min(n_, 300))]
                dut.init = rng.choice([list, tuple, iter])(img)
                model = img + [0] * (depth - len(img))
            elif op == "patch":
                # patching a word through the property: whatever the property reports afterwards is what the memory
                # must start from (the effect of the patch itself is lib.memory's business, not asserted here)
                k_ = rng.randrange(min(depth, 300))
                v_ = rng.getrandbits(dw)
                try:
                    dut.init[k_] = v_
                    patched = True
                except (TypeError, ValueError, IndexError):
                    patched = False
                if patched:
                    # an item assignment that was accepted is not silently lost (a refusing, immutable image is fine)
                    mon.run(lambda: mon.eq("init_history", dut.init[k_], v_,
                                           f"init[{k_}] = {v_:#x} was accepted, but init[{k_}] then reads"))
                model = list(dut.init)
                mon.count("init_history_ops")
                continue
            else:
                bad = [rng.getrandbits(dw) for _ in range(rng.randint(0, min(depth, 8) - 1))] + ["not-a-number"]
                try:
                    dut.init = bad
                    refused = False
                except (TypeError, ValueError):
                    refused = True
                mon.ok("init_history", refused, "an init image with a non-integer element was accepted")
            got = list(dut.init)
            mon.ok("init_history", got == model,
                   lambda: f"after {op}: the init property reports {got[:8]}..., expected {model[:8]}...")
            mon.count("init_history_ops")

    if depth <= 1024 and rng.random() < 0.35:
        mon.run(init_history)
        if mon.violations:
            return mon.result(summary={"size": case["size"], "data_width": dw, "granularity": gran})
    written = set()          # rows changed (or, read-only, attempted) by a write
    full_every = 1 if depth <= 64 else 16
    gmask = (1 << gran) - 1
    style = case["style"]
    state = {"nontrivial": False}

    async def bench(ctx):
        prev = None       # inputs and ack of the previous cycle
        hold = None
        for c in range(case["cycles"]):
            mon.cycle = c
            # ---- drive
            if style == "sticky" and hold is not None and rng.random() < 0.7:
                inp = dict(hold)
                if rng.random() < 0.3:
                    inp["dat_w"] = bits(rng, dw)      # data changing while strobes are held
            else:
                p = 0.85 if style != "raw" else 0.65
                inp = {
                    "cyc": int(rng.random() < p), "stb": int(rng.random() < p),
                    "we": int(rng.random() < 0.5),
                    "adr": (rng.randrange(depth) if rng.random() < 0.7 else rng.choice([0, depth - 1, depth // 2, depth // 2 - 1]))
                    if rng.random() < 0.5 or not written else rng.choice(sorted(written)),
                    "sel": rng.choice([bits(rng, nsel), (1 << nsel) - 1, 0, 1 << rng.randrange(nsel)]),
                    "dat_w": biased_bits(rng, dw),
                }
                if style == "b2b":
                    inp["cyc"] = inp["stb"] = int(rng.random() < 0.95)
            hold = inp
            for k, v in inp.items():
                ctx.set(getattr(bus, k), v)
            if extra_port is not None:
                ctx.set(extra_port.addr, rng.randrange(depth))
                mon.count("cycles_with_a_second_read_port_on_the_published_memory")
            # ---- sample
            ack = ctx.get(bus.ack)
            dat_r = ctx.get(bus.dat_r)
            mon.log({"c": c, **inp, "ack": ack, "dat_r": dat_r})
            if prev is None:
                mon.eq("ack_next", ack, 0, "ack in the first cycle (spontaneous)")
            else:
                p_inp, p_ack = prev
                exp_ack = int((not p_ack) and p_inp["cyc"] and p_inp["stb"])
                mon.eq("ack_next", ack, exp_ack,
                       "ack must follow a presented transfer by exactly one cycle, once")
                req = exp_ack
                if req and not p_inp["we"]:
                    # model still holds the pre-edge image of the request cycle here
                    mon.eq("read_data", dat_r, state["pre"][p_inp["adr"]],
                           f"read data with ack for row {p_inp['adr']}")
                    mon.bin("read_kind", "after_write" if p_inp["adr"] in written else "init")
                    if p_inp["adr"] in written:
                        state["nontrivial"] = True
            # whole-memory image against the model (contents visible in this cycle)
            if c % full_every == 0:
                if depth <= 1024:
                    rows = range(depth)
                else:   # very large memory: every row ever addressed, their neighbours, and a random sample
                    rows = sorted({r for a in written for r in (a - 1, a, a + 1) if 0 <= r < depth}
                                  | {rng.randrange(depth) for _ in range(32)} | {0, depth - 1})
                for row in rows:
                    got = ctx.get(mem_data[row])
                    if got != model[row]:
                        mon.counters["mem_image"] += 1
                        mon.fail("mem_image", f"memory row {row} holds {got:#x}, model {model[row]:#x}",
                                 row=row, observed=got, expected=model[row])
                mon.count("mem_image", len(rows))
            # ---- model step (effect of this cycle's edge)
            state["pre"] = list(model)
            request = (not ack) and inp["cyc"] and inp["stb"]
            if request:
                mon.bin("req", ("we" if inp["we"] else "rd", "selnone" if inp["sel"] == 0 else
                                "selall" if inp["sel"] == (1 << nsel) - 1 else "selpart"))
                if prev is not None and prev[1]:
                    mon.count("back_to_back_requests")
            if ack and inp["cyc"] and inp["stb"]:
                mon.count("strobes_held_through_ack")
            if request and inp["we"]:
                written.add(inp["adr"])
                if case["writable"]:
                    word = model[inp["adr"]]
                    for g in range(nsel):
                        if (inp["sel"] >> g) & 1:
                            word = (word & ~(gmask << (g * gran))) | (inp["dat_w"] & (gmask << (g * gran)))
                    model[inp["adr"]] = word
                    mon.count("writes_modelled")
                else:
                    mon.count("writes_to_readonly")
            prev = (inp, ack)
            await ctx.tick()

    simulate(Top({"sram": dut}), bench, mon)
    summary = {k: case[k] for k in ("size", "data_width", "granularity", "writable", "style")}
    summary["init_len"] = len(case["init"])
    summary["stim"] = case["stim_seed"]
    mon.count("cycles", mon.cycle + 1)
    mon.bin("geometry", (dw, gran, case["size"], case["writable"]))
    mon.bin("init_container", container)
    return mon.result(nontrivial=state["nontrivial"], summary=summary)

LEVEL_TEXT = ("Online trace monitor over simulations of the real WishboneSRAM with every bus input random on every "
              "cycle; ack timing, read data and the whole memory image are compared with a reference model each "
              "cycle. Held on the geometries and cycles explored, nothing more.")
LEVEL_NOTE = "Trusted: Amaranth simulator and lib.memory, CPython, the 20-line reference memory model."
TECHNIQUE = "runtime monitoring: online trace checker + reference memory model over randomized simulation"
DESIGN_REF = "DESIGN.md section 4, C15"
