# amaranth: UnusedElaboratable=no
"""C08 - Wishbone arbiter: one owner at a time, isolated, never pre-empted mid-cycle (see work/arb.py)."""
from vmon.work import arb

ID = "C08"
RULE = ("cases = arbiter with 1-6 initiators, random feature subsets and granularities on both sides, every initiator "
        "input and every target response random per cycle, plus sticky/greedy/locking/polite request behaviours; "
        "distinct = distinct configuration+stimulus; non-trivial = run with >= 2 initiators and >= 5 ownership changes")
ASSUMPTIONS = ["Amaranth simulator is faithful", "owner identified from the shared bus via per-initiator index bits in adr",
               "busy = owner.cyc & (lock | stb) when the arbiter has LOCK, owner.cyc otherwise"]
REQUIRED = ["owner_identified", "bus_carries_owner", "sel_fanout", "optional_defaults", "owner_response",
            "others_isolated", "no_preemption", "ownership_changes"]


def n_cases(tier):
    return 480 if tier == "quick" else 6000


def gen_case(rng, tier, idx):
    return arb.gen_arb(rng, tier, idx)


def run_case(case):
    r = arb.run_arb_case(case, arb.C08_MONITORS)
    r["nontrivial"] = case["n"] >= 2 and r.pop("changes", 0) >= 5
    r.pop("trans", None)
    return r


def evidence_extra(results, counters, bins, tier):
    out = {}
    for n in (1, 2, 3, 4, 5):
        hit = len(bins.get(f"state:n{n}", ()))
        total = n * (1 << n) * 2
        # (owner, mask, busy): busy implies the owner requests, so half of the busy states are unreachable
        reachable = n * (1 << n) + n * (1 << (n - 1))
        out[f"n{n}"] = {"owner_mask_busy_states_seen": hit, "reachable": reachable, "complete": hit >= reachable}
    return {"state_bins": out}


LEVEL_TEXT = ("Online per-cycle monitor over simulations of the real wishbone.Arbiter with misbehaving initiators: the owner is "
              "read off the shared bus and bus contents, response isolation and no-pre-emption are asserted on every cycle; "
              "(owner, request mask, busy) coverage is measured.")
LEVEL_NOTE = "Trusted: Amaranth simulator, CPython, the 30-line oracle."
TECHNIQUE = "runtime monitoring: per-cycle ownership/isolation oracle over randomized simulation"
DESIGN_REF = "DESIGN.md section 4, C08"
