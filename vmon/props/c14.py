# amaranth: UnusedElaboratable=no
"""C14 - CSR event monitor: enable reads back, pending is read / write-one-to-clear.

A real csr.EventMonitor is attached (a) directly, (b) through a csr.Decoder, (c) by wiring.connect()
of an initiator interface to its bus port. Conforming CSR register transactions are interleaved with
source activity on every cycle. Oracle: the multiplexer timing model (models/csrmux.py) composed with
the event-monitor model of C13; register addresses come from bus.memory_map.all_resources().
"""
import random

from vmon import env  # noqa: F401
from vmon.simkit import Top, Mon, simulate, bits, new_map
from vmon.models.csrmux import MuxModel
from vmon.work.csrdev import CsrDriver, assemble

from amaranth.lib import wiring
from amaranth_soc import csr, event
from amaranth_soc.csr.event import EventMonitor

ID = "C14"
RULE = ("cases = EventMonitor with 0-40 events (random level/rise/fall), data width 8/16/32, alignment 0-3, attached "
        "directly | through a csr.Decoder | through wiring.connect() to an initiator interface; conforming register "
        "transactions (complete or abandoned, reads/writes/both, idle gaps, unmapped accesses) interleaved with random "
        "source activity every cycle; distinct = distinct configuration+stimulus; non-trivial = run in which a pending "
        "bit was cleared by a write, a source fired in the very cycle its clear took effect, and a multi-chunk or "
        "single-chunk pending read was compared after the mask had changed since capture")
ASSUMPTIONS = ["Amaranth simulator is faithful", "multiplexer timing model (C04/C05) composed with the monitor model (C13)",
               "write transactions are complete or abandoned before the last address (effects predictable from the trace)"]
REQUIRED = ["read_data", "src_i", "enable_written", "pending_cleared", "zero_write_clears_nothing", "trigger_beats_clear"]


def n_cases(tier):
    return 480 if tier == "quick" else 6000


def gen_case(rng, tier, idx):
    n = rng.choice([0, 1, 2, 3, 5, 8, 9, 12, 16, 17, 24, 33, 40, 41, 64, 65, 72])
    return {"n": n, "triggers": [rng.choice(["level", "rise", "fall"]) for _ in range(n)],
            "dw": rng.choice([8, 8, 16, 32, 64, 4]), "al": rng.choice([0, 0, 1, 2, 3, 4]),
            "attach": ["direct", "decoder", "connect"][idx % 3], "mon_trigger": rng.choice(["level", "rise", "fall"]),
            "cycles": (350 if tier == "quick" else 900) * (8 if rng.random() < 0.04 else 1)}


def run_case(case):
    rng = random.Random(case["stim_seed"])
    n, dw = case["n"], case["dw"]
    mon = Mon()
    from vmon.simkit import omit
    naming = rng.choice(["distinct", "distinct", "distinct", "pathless", "same_path"])
    srcs = [event.Source(**omit(rng, "event.Source", trigger=t),
                         **({"path": (f"s{i}",)} if naming == "distinct" else {} if naming == "pathless" else {"path": ("irq",)}))
            for i, t in enumerate(case["triggers"])]
    emap = event.EventMap()
    for k_, s in enumerate(srcs):
        emap.add(s)
        if rng.random() < 0.2:
            emap.add(rng.choice(srcs[:k_ + 1]))      # adding a source again must change nothing (bit k = k-th first add)
    from vmon.simkit import decoy

    def twin():
        em2 = event.EventMap()
        for i, t in enumerate(case["triggers"]):
            em2.add(event.Source(trigger=t, path=(f"t{i}",)))
        return EventMonitor(em2, trigger=case["mon_trigger"], data_width=dw, alignment=case["al"])

    decoy(rng, twin)
    dut = EventMonitor(emap, **omit(rng, "csr.EventMonitor", trigger=case["mon_trigger"], data_width=dw, alignment=case["al"]))
    from vmon.simkit import decoy_after

    def other_monitor():
        em3 = event.EventMap()
        for i in range(n + 3):
            em3.add(event.Source(trigger="level", path=(f"o{i}",)))
        return EventMonitor(em3, trigger="level", data_width=8 if dw != 8 else 16, alignment=(case["al"] + 1) % 3)

    other = decoy_after(rng, other_monitor)
    summary = {k: case[k] for k in ("n", "dw", "al", "attach")}
    summary["stim"] = case["stim_seed"]
    subs = {"evmon": dut}
    # a two-level interrupt tree: the monitor's outgoing source is one event of an outer (SoC-level) monitor
    outer = None
    if rng.random() < 0.35:
        omap = event.EventMap()
        other_src = event.Source(trigger="level", path=("other",))
        for s_ in ([dut.src, other_src] if rng.random() < 0.5 else [other_src, dut.src]):
            omap.add(s_)
        outer = event.Monitor(omap, trigger="level")
        subs["outer"] = outer
        obit = omap.index(dut.src)
        mon.count("two_level_interrupt_trees")
    extra = None
    base = 0
    if case["attach"] == "direct":
        bus = dut.bus
        mmap = dut.bus.memory_map
    elif case["attach"] == "decoder":
        aw = dut.bus.addr_width + rng.randint(1, 3)
        dec = csr.Decoder(addr_width=aw, data_width=dw)
        if rng.random() < 0.6:
            dec.align_to(aw - 1)
            filler = csr.Interface(addr_width=1, data_width=dw, path=("filler",))
            from amaranth_soc.memory import MemoryMap
            filler.memory_map = new_map(addr_width=1, data_width=dw)
            dec.add(filler, name="filler", addr=0)
        dec.add(dut.bus, name=rng.choice([None, "ev"]))
        subs["dec"] = dec
        bus = dec.bus
        mmap = dec.bus.memory_map
    else:
        init = csr.Signature(addr_width=dut.bus.addr_width, data_width=dw).create(path=("init",))
        bus = init
        mmap = dut.bus.memory_map

        def extra(m):
            wiring.connect(m, init, dut.bus)

    infos = {tuple(str(x) for nm in i.path for x in nm)[-1]: i for i in mmap.all_resources()}
    regs = []
    for name in ("enable", "pending"):
        i = infos[name]
        regs.append({"start": i.start, "end": i.end, "width": n, "access": "rw", "name": name})
    regs.sort(key=lambda r: r["start"])
    idx = {r["name"]: k for k, r in enumerate(regs)}
    model = MuxModel(regs, dw)

    def coverage():
        for r in regs:
            mon.ok("mask_register_covers_all_events", (r["end"] - r["start"]) * dw >= n,
                   f"{r['name']} must hold {n} event bits but the memory map gives it only [{r['start']},{r['end']}) x {dw} bits")
            mon.ok("mask_register_covers_all_events", infos[r["name"]].resource.element.width == n,
                   f"{r['name']}: element width {infos[r['name']].resource.element.width} != number of events {n}")

    mon.run(coverage)
    if mon.violations:
        return mon.result(summary=summary)
    aw = len(bus.addr)

    def data_hook(i, r):
        x = rng.random()
        if x < 0.2:
            return 0
        if x < 0.35:
            return (1 << max(1, n)) - 1
        if x < 0.6 and n:
            return 1 << rng.randrange(n)
        return bits(rng, n) if n else 0

    drv = CsrDriver(rng, regs, aw, dw, data_hook=data_hook)
    st = {"E": 0, "P": 0, "prev_i": [0] * n, "cleared": False, "beat": False, "changed_read": False,
          "oP": 0, "oprev": 0}
    mask = (1 << n) - 1
    burst = {"i": 0}

    from vmon.simkit import reset_plan, drive_reset
    resets = reset_plan(case["cycles"])

    async def bench(ctx):
        for c in range(case["cycles"]):
            mon.cycle = c
            inp = drv.next()
            drive_reset(ctx, c in resets)
            if c in resets:
                inp = drv.idle()          # warm reset: idle bus cycle, the transaction in progress is abandoned
                drv.restart()
            ctx.set(bus.addr, inp["addr"])
            ctx.set(bus.r_stb, inp["r_stb"])
            ctx.set(bus.w_stb, inp["w_stb"])
            ctx.set(bus.w_data, inp["w_data"])
            if rng.random() < 0.5:
                burst["i"] = rng.choice([bits(rng, n), bits(rng, n) & bits(rng, n), mask, 0])
            i_vec = burst["i"]
            for k in range(n):
                ctx.set(srcs[k].i, (i_vec >> k) & 1)
            vals = [0, 0]
            vals[idx["enable"]] = st["E"]
            vals[idx["pending"]] = st["P"]
            exp = model.expect(inp, vals)
            got = ctx.get(bus.r_data)
            mon.log({"c": c, **inp, "i": i_vec, "E": st["E"], "P": st["P"], "r_data": got})
            kind, v = exp["r_data"]
            if kind != "unknown":
                mon.eq("read_data", got, v, f"bus.r_data ({kind}) with enable={st['E']:#x} pending={st['P']:#x}")
            mon.eq("src_i", ctx.get(dut.src.i), int((st["E"] & st["P"]) != 0), "src.i vs any(enable & pending)")
            if outer is not None:
                # the outer monitor: bit `obit` follows the inner monitor's outgoing line in its trigger mode
                line = int((st["E"] & st["P"]) != 0)
                otrg = {"level": line, "rise": (1 - st["oprev"]) & line, "fall": st["oprev"] & (1 - line)}[case["mon_trigger"]]
                oclear = bits(rng, 2) if rng.random() < 0.5 else 0
                ctx.set(outer.clear, oclear)
                ctx.set(outer.enable, bits(rng, 2))
                ctx.set(other_src.i, 0)
                mon.eq("outer_trg", ctx.get(dut.src.trg), otrg, "trg of the monitor's outgoing source, seen by the outer monitor")
                mon.eq("outer_pending", (ctx.get(outer.pending) >> obit) & 1, st["oP"],
                       "pending bit of the outer monitor for the inner monitor's outgoing source")
                st["oP"] = (st["oP"] & ~((oclear >> obit) & 1)) | otrg
                st["oprev"] = line
            # effects of register writes that fire in this cycle
            trg = 0
            for k in range(n):
                i_k, p_k = (i_vec >> k) & 1, st["prev_i"][k]
                trg |= {"level": i_k, "rise": (1 - p_k) & i_k, "fall": p_k & (1 - i_k)}[case["triggers"][k]] << k
            E, P = st["E"], st["P"]
            clear = 0
            if exp["w_stb"].get(idx["enable"]):
                payload = exp["w_data"].get(idx["enable"])
                if payload is not None and len(payload) == regs[idx["enable"]]["end"] - regs[idx["enable"]]["start"]:
                    E = assemble(payload, dw, n)
                    mon.count("enable_written")
            if exp["w_stb"].get(idx["pending"]):
                payload = exp["w_data"].get(idx["pending"])
                if payload is not None:
                    clear = assemble(payload, dw, n)
                    if clear == 0:
                        mon.count("zero_write_clears_nothing")
                    if clear & st["P"] & ~trg:
                        mon.count("pending_cleared")
                        st["cleared"] = True
                    if clear & st["P"] & trg:
                        mon.count("trigger_beats_clear")
                        st["beat"] = True
            st["E"], st["P"] = E, ((P & ~clear) | trg) & mask
            st["prev_i"] = [(i_vec >> k) & 1 for k in range(n)]
            model.advance(inp, vals)
            if c in resets:
                st["E"], st["P"], st["prev_i"] = 0, 0, [0] * n
                st["oP"], st["oprev"] = 0, 0
                model.reset()
                mon.count("warm_resets")
            await ctx.tick()

    try:
        simulate(Top(subs, extra=extra), bench, mon)
    except wiring.ConnectionError as e:
        mon.violations.append({"monitor": "connect_attachment", "mechanism": "csr.EventMonitor.bus:connect-fails",
                               "msg": f"wiring.connect(initiator, EventMonitor.bus) failed: {str(e)[:200]}",
                               "detail": {}})
        return mon.result(summary=summary)
    mon.count("cycles", mon.cycle + 1)
    mon.count("transactions", drv.transactions)
    mon.bin("attach", case["attach"])
    mon.bin("n_events", n)
    nontrivial = st["cleared"] and st["beat"] and n > 0
    return mon.result(nontrivial=nontrivial, summary=summary)


LEVEL_TEXT = ("Online monitor over simulations of the real csr.EventMonitor in three attachment styles: every bus read "
              "value and the interrupt line are predicted on every cycle by the multiplexer timing model composed with "
              "the event-monitor model, under conforming register traffic interleaved with random source activity.")
LEVEL_NOTE = "Trusted: Amaranth simulator, CPython, models/csrmux.py + the pending/enable model."
TECHNIQUE = "runtime monitoring: per-cycle composed reference model (multiplexer timing + event monitor) over randomized simulation"
DESIGN_REF = "DESIGN.md section 4, C14"
