# amaranth: UnusedElaboratable=no
"""C20 - ports have the direction their role implies; signatures round-trip.

kind "connect": one component instance with generated parameters; wiring.connect() of a fresh
  complementary standard interface with the same parameters to each bus-facing port (initiator ->
  target ports; arbiter output -> target) must succeed, and the connected design must elaborate.
kind "sig": one signature class; over its parameter grid: create() round-trip, equality for pairs
  against equality of the defining parameters, member presence and widths.
"""
import itertools
import random

from vmon import env  # noqa: F401
from vmon.suitemon import suite_case
from vmon.simkit import Mon, Top, spell_features, new_map

from amaranth import Module, Shape, unsigned, signed, Elaboratable
from amaranth.hdl import Fragment
from amaranth.lib import wiring, enum as am_enum, data as am_data
from amaranth.lib.wiring import In, Out, flipped

from amaranth_soc import csr, event, gpio, wishbone
from amaranth_soc.csr import action
from amaranth_soc.csr.wishbone import WishboneCSRBridge
from amaranth_soc.csr.event import EventMonitor
from amaranth_soc.memory import MemoryMap
from amaranth_soc.wishbone.sram import WishboneSRAM
from vmon.work.mux import Probe

ID = "C20"
RULE = ("connect cases = component class in {csr.Multiplexer, csr.Decoder, csr.Bridge, csr.EventMonitor, gpio.Peripheral, "
        "wishbone.Decoder, WishboneCSRBridge, WishboneSRAM, wishbone.Arbiter} x generated parameters, connect() of the "
        "complementary interface to every bus-facing port and elaboration of the result; sig cases = signature class in "
        "{csr.Signature, csr.Element.Signature, csr.FieldPort.Signature, wishbone.Signature (all 64 feature subsets), "
        "event.Source.Signature, gpio.PinSignature} over its parameter grid: create() round-trip, pairwise equality "
        "vs parameter equality, member presence/width; distinct = distinct class+parameters (connect) or class+grid "
        "slice (sig); non-trivial = connect case that connected and elaborated, or sig case with >= 20 pairs compared")
ASSUMPTIONS = ["wiring.connect() success is the criterion for 'direction its role implies'",
               "directions of non-bus members (Register.element, event.Monitor.pending) are not asserted"]
REQUIRED = ["connect_ok", "connected_design_elaborates", "create_roundtrip", "eq_matches_params", "members_follow_params"]

CONNECT_KINDS = ["mux", "csrdec", "regbridge", "csrevmon", "gpio", "wbdec", "wbbridge", "sram", "arb"]
SIG_KINDS = ["csr.Signature", "csr.Element.Signature", "csr.FieldPort.Signature", "wishbone.Signature",
             "event.Source.Signature", "gpio.PinSignature"]
FEATS = ["err", "rty", "stall", "lock", "cti", "bte"]


class E2(am_enum.Enum, shape=unsigned(2)):
    A = 0
    B = 1


def n_cases(tier):
    return 450 if tier == "quick" else 3000


def gen_case(rng, tier, idx):
    if idx == 0:
        return {"suite": True}     # the repository\'s own test-suite under the monitors (vmon/suitemon.py)
    if idx == 1:
        return {"kind": "toplevel"}     # the same calls made at module level of a script (vmon/toplevel_script.py)
    if idx % 5 == 4:
        return {"kind": "sig", "cls": SIG_KINDS[(idx // 5) % len(SIG_KINDS)], "pairs": 3000 if tier == "quick" else 40000}
    return {"kind": "connect", "cls": CONNECT_KINDS[idx % len(CONNECT_KINDS)]}


# --------------------------------------------------------------------------------------------- connect

USED = []       # (what, signature object that was handed to the component, signature rebuilt from the same parameters)


def reported(port):
    """The standard signature rebuilt from the parameters the port itself reports."""
    if hasattr(port, "granularity"):
        return wishbone.Signature(addr_width=port.addr_width, data_width=port.data_width, granularity=port.granularity,
                                  features=port.features)
    return csr.Signature(addr_width=port.addr_width, data_width=port.data_width)


def build_component(kind, rng, P):
    """Returns (component, [(port, complementary interface factory, role)])."""
    if kind == "mux":
        aw, dw = rng.randint(1, 8), rng.choice([1, 8, 16, 32])
        mm = MemoryMap(addr_width=aw, data_width=dw)
        for i in range(rng.randint(0, 3)):
            try:
                mm.add_resource(Probe(rng.randint(0, 3 * dw), rng.choice(["r", "w", "rw"])), name=f"r{i}", size=rng.randint(1, 3))
            except ValueError:
                pass
        P.update(aw=aw, dw=dw)
        c = csr.Multiplexer(mm)
        return c, [(c.bus, csr.Signature(addr_width=aw, data_width=dw), "target")]
    if kind == "csrdec":
        aw, dw = rng.randint(1, 12), rng.choice([1, 8, 16, 32])
        P.update(aw=aw, dw=dw)
        c = csr.Decoder(addr_width=aw, data_width=dw, alignment=rng.choice([0, 1]))
        return c, [(c.bus, csr.Signature(addr_width=aw, data_width=dw), "target")]
    if kind == "regbridge":
        aw, dw = rng.randint(2, 8), rng.choice([8, 16, 32])
        b = csr.Builder(addr_width=aw, data_width=dw)
        b.add("a", csr.Register({"f": csr.Field(action.RW, rng.randint(1, dw))}, access="rw"))
        if rng.random() < 0.5:
            with b.Cluster("c"):
                with b.Index(1):
                    b.add("b", csr.Register({"f": csr.Field(action.R, rng.randint(1, dw))}, access="r"))
        P.update(aw=aw, dw=dw)
        c = csr.Bridge(b.as_memory_map())
        return c, [(c.bus, csr.Signature(addr_width=aw, data_width=dw), "target")]
    if kind == "csrevmon":
        n, dw, al = rng.choice([0, 1, 5, 9, 33]), rng.choice([8, 16, 32]), rng.choice([0, 1, 2])
        em = event.EventMap()
        for i in range(n):
            em.add(event.Source(trigger=rng.choice(["level", "rise", "fall"]), path=(f"s{i}",)))
        P.update(n=n, dw=dw, al=al)
        c = EventMonitor(em, data_width=dw, alignment=al)
        return c, [(c.bus, csr.Signature(addr_width=c.bus.addr_width, data_width=dw), "target")]
    if kind == "gpio":
        pins, dw, aw = rng.choice([1, 4, 8, 16]), rng.choice([8, 16, 32]), rng.choice([4, 5, 6, 8])
        P.update(pins=pins, dw=dw, aw=aw)
        c = gpio.Peripheral(pin_count=pins, addr_width=aw, data_width=dw, input_stages=rng.choice([0, 2]))
        return c, [(c.bus, csr.Signature(addr_width=aw, data_width=dw), "target")]
    dw = rng.choice([8, 16, 32, 64])
    gran = rng.choice([g for g in (8, 16, 32, 64) if g <= dw])
    feats = frozenset(f for f in FEATS if rng.random() < 0.5)
    if kind == "wbdec":
        aw = rng.choice([0, 1, 4, 10, 30])
        P.update(aw=aw, dw=dw, gran=gran, features=sorted(feats))
        c = wishbone.Decoder(addr_width=aw, data_width=dw, granularity=gran, features=spell_features(rng, feats))
        # subordinates added before the port is looked at: each keeps the signature it was built with
        for i in range(rng.choice([0, 1, 2, 3])):
            saw = rng.randint(0, max(0, aw - 2))
            if saw + (dw // gran).bit_length() - 1 < 1:
                continue
            sfe = frozenset(f for f in FEATS if rng.random() < 0.6 and (f in feats or f in ("lock", "cti", "bte")))
            sub = wishbone.Interface(addr_width=saw, data_width=dw, granularity=gran, features=spell_features(rng, sfe),
                                     path=(f"s{i}",))
            sub.memory_map = new_map(addr_width=saw + (dw // gran).bit_length() - 1, data_width=gran)
            try:
                c.add(sub, name=f"s{i}")
            except ValueError:
                pass
            USED.append((f"subordinate bus after Decoder.add()", sub.signature,
                         wishbone.Signature(addr_width=saw, data_width=dw, granularity=gran, features=sfe)))
        return c, [(c.bus, wishbone.Signature(addr_width=aw, data_width=dw, granularity=gran, features=feats), "target")]
    if kind == "wbbridge":
        cdw = rng.choice([8, 16, 32, 64])
        wdw = rng.choice([w for w in (8, 16, 32, 64) if w >= cdw])
        lg = (wdw // cdw).bit_length() - 1
        caw = rng.randint(max(1, lg), 10)
        cb = csr.Interface(addr_width=caw, data_width=cdw, path=("csr",))
        cb.memory_map = new_map(addr_width=caw, data_width=cdw)
        P.update(cdw=cdw, wdw=wdw, caw=caw)
        c = WishboneCSRBridge(cb, data_width=wdw)
        return c, [(c.wb_bus, wishbone.Signature(addr_width=max(0, caw - lg), data_width=wdw, granularity=cdw), "target")]
    if kind == "sram":
        size = rng.choice([s for s in (2, 4, 16, 256) if s * gran >= dw and s * gran // dw >= 1])
        P.update(size=size, dw=dw, gran=gran)
        c = WishboneSRAM(size=size, data_width=dw, granularity=gran, writable=rng.random() < 0.5)
        depth = size * gran // dw
        return c, [(c.wb_bus, wishbone.Signature(addr_width=(depth - 1).bit_length() if depth > 1 else 0, data_width=dw,
                                                 granularity=gran), "target")]
    if kind == "arb":
        aw = rng.choice([0, 4, 16])
        P.update(aw=aw, dw=dw, gran=gran, features=sorted(feats))
        c = wishbone.Arbiter(addr_width=aw, data_width=dw, granularity=gran, features=spell_features(rng, feats))
        for i in range(rng.randint(1, 3)):
            ife = feats | {"err", "rty"} & feats
            ini = wishbone.Interface(addr_width=aw, data_width=dw, granularity=gran, features=ife, path=(f"i{i}",))
            c.add(ini)
            USED.append(("initiator bus after Arbiter.add()", ini.signature,
                         wishbone.Signature(addr_width=aw, data_width=dw, granularity=gran, features=ife)))
        return c, [(c.bus, wishbone.Signature(addr_width=aw, data_width=dw, granularity=gran, features=feats), "initiator")]
    raise AssertionError(kind)


class Wrapper(Elaboratable):
    def __init__(self, comp, conns):
        self.comp, self.conns = comp, conns

    def elaborate(self, platform):
        m = Module()
        m.submodules.comp = self.comp
        for a, b in self.conns:
            wiring.connect(m, a, b)
        return m


def run_connect(case, rng, mon):
    P = {"kind": "connect", "cls": case["cls"]}
    del USED[:]
    if rng.random() < 0.4:
        warm = [wishbone.Signature(addr_width=4, data_width=32, granularity=8, features={"err", "stall"}),
                csr.Signature(addr_width=4, data_width=8)]
        mon.count("refused_calls_before_build", refused_calls(rng, warm))
    comp, ports = build_component(case["cls"], rng, P)
    conns = []
    ok = True
    for what, used, ref in USED:
        # a signature keeps its parameters and members while the interface it describes is in use
        mon.counters["signature_unchanged_by_use"] += 1
        if not (used == ref) or dict(used.members) != dict(ref.members):
            ok = False
            mon.violations.append({"monitor": "signature_unchanged_by_use", "mechanism": f"{case['cls']}:signature-changed-by-use",
                                   "msg": f"{what}: signature is now {used!r} (members {sorted(used.members)}), it was built as "
                                          f"{ref!r}", "detail": {"params": P}})
    for port, _sig, _role in ports:
        mon.count("feature_getters_poked", poke_features(port))
    for port, sig, role in ports:
        # the port reports the parameters it was built with: rebuilding the standard signature from what the port
        # itself reports must give the same signature as building it from the constructor arguments
        mon.counters["port_reports_its_parameters"] += 1
        try:
            rep = reported(port)
            same = rep == sig and dict(rep.members) == dict(sig.members)
        except Exception as e:
            rep, same = e, False
        if not same:
            ok = False
            mon.violations.append({"monitor": "port_reports_its_parameters", "mechanism": f"{case['cls']}:port-parameters",
                                   "msg": f"{case['cls']}'s bus port reports parameters giving {rep!r}; it was built with {sig!r}",
                                   "detail": {"params": P}})
        elif rng.random() < 0.5:
            sig = rep
        if role == "target":
            other = sig.create(path=("init",))           # standard initiator-side interface
            pair = (other, port)
        else:
            other = flipped(sig.create(path=("tgt",)))   # a target as seen from outside the component owning it
            pair = (port, other)
        mon.counters["connect_ok"] += 1
        try:
            wiring.connect(Module(), *pair)
        except Exception as e:
            ok = False
            mon.violations.append({"monitor": "connect_ok", "mechanism": f"{case['cls']}:connect-fails",
                                   "msg": f"wiring.connect() between a standard {('initiator' if role == 'target' else 'target')} "
                                          f"interface and {case['cls']}'s bus port failed: {type(e).__name__}: {str(e)[:200]}",
                                   "detail": {"params": P}})
        conns.append(pair)
    if ok:
        mon.counters["connected_design_elaborates"] += 1
        try:
            Fragment.get(Wrapper(comp, conns), None)
        except Exception as e:
            ok = False
            mon.violations.append({"monitor": "connected_design_elaborates", "mechanism": f"{case['cls']}:connected-design-fails",
                                   "msg": f"{case['cls']} connected to its complementary interface does not elaborate: "
                                          f"{type(e).__name__}: {str(e)[:200]}", "detail": {"params": P}})
    mon.bin("connect_classes", case["cls"])
    return mon.result(nontrivial=ok, summary=P)


# --------------------------------------------------------------------------------------------- signatures

def grid(cls, rng):
    """[(params (hashable, canonical), factory)]"""
    out = []
    fresh = lambda n: int(str(n))     # a new int object on every call (equal value, different identity above 256)
    if cls == "csr.Signature":
        for aw in (1, 2, 8, 16, 32, 300):
            for dw in (1, 8, 16, 32, 37, 257, 1024):
                out.append(((aw, dw), lambda aw=aw, dw=dw: csr.Signature(addr_width=fresh(aw), data_width=fresh(dw))))
    elif cls == "csr.Element.Signature":
        for w in (0, 1, 8, 9, 64, 256, 257, 512, 1000):
            for acc in ("r", "w", "rw", csr.Element.Access.R, csr.Element.Access.RW):
                a = csr.Element.Access(acc).value
                out.append(((w, a), lambda w=w, acc=acc: csr.Element.Signature(fresh(w), acc)))
    elif cls == "csr.FieldPort.Signature":
        shapes = [unsigned(0), unsigned(1), 1, unsigned(8), 8, signed(8), range(256), range(16), unsigned(4), E2, unsigned(2),
                  signed(2), unsigned(300), signed(300), 300, range(-2, 2),
                  # aggregate shapes given as classes and as layout objects, next to plain shapes of the same width
                  Flags7, am_data.StructLayout({"a": 1, "b": unsigned(6)}), unsigned(7), Either5, unsigned(5),
                  am_data.ArrayLayout(unsigned(2), 3), unsigned(6)]
        for sh in shapes:
            for acc in ("r", "w", "rw", "nc"):
                c = Shape.cast(sh)
                out.append((((c.width, c.signed), acc),
                            lambda sh=sh, acc=acc: csr.FieldPort.Signature(
                                unsigned(fresh(sh.width)) if (isinstance(sh, Shape) and not sh.signed and sh.width > 256) else sh, acc)))
    elif cls == "wishbone.Signature":
        geos = [(aw, dw, g) for aw in (0, 1, 2, 29, 30, 300) for dw in (8, 16, 32, 64) for g in (None, 8, 16, 32, 64)
                if g is None or g <= dw]
        for aw, dw, g in geos:
            for k in range(64):
                feats = frozenset(FEATS[i] for i in range(6) if (k >> i) & 1)
                out.append(((aw, dw, g or dw, feats),
                            lambda aw=aw, dw=dw, g=g, feats=feats: wishbone.Signature(
                                addr_width=fresh(aw), data_width=dw, granularity=g,
                                features=[wishbone.Feature(f) for f in sorted(feats)] if k % 2 else feats)))
    elif cls == "event.Source.Signature":
        for t in ("level", "rise", "fall", event.Source.Trigger.RISE, event.Source.Trigger.LEVEL):
            out.append(((event.Source.Trigger(t).value,), lambda t=t: event.Source.Signature(trigger=t)))
    elif cls == "gpio.PinSignature":
        for _ in range(4):
            out.append(((), lambda: gpio.PinSignature()))
    return out


class Flags7(am_data.Struct):
    a: 1
    b: unsigned(3)
    c: unsigned(3)


class Either5(am_data.Union):
    x: unsigned(5)
    y: unsigned(2)


def expected_members(cls, params):
    if cls == "csr.Signature":
        aw, dw = params
        return {"addr": aw, "r_data": dw, "r_stb": 1, "w_data": dw, "w_stb": 1}
    if cls == "csr.Element.Signature":
        w, a = params
        m = {}
        if "r" in a:
            m.update(r_data=w, r_stb=1)
        if "w" in a:
            m.update(w_data=w, w_stb=1)
        return m
    if cls == "csr.FieldPort.Signature":
        (w, _s), _a = params
        return {"r_data": w, "r_stb": 1, "w_data": w, "w_stb": 1}
    if cls == "wishbone.Signature":
        aw, dw, g, feats = params
        m = {"adr": aw, "dat_w": dw, "dat_r": dw, "sel": dw // g, "cyc": 1, "stb": 1, "we": 1, "ack": 1}
        for f, w in (("err", 1), ("rty", 1), ("stall", 1), ("lock", 1), ("cti", 3), ("bte", 2)):
            if f in feats:
                m[f] = w
        return m
    if cls == "event.Source.Signature":
        return {"i": 1, "trg": 1}
    return {"i": 1, "o": 1, "oe": 1}


def poke_features(obj):
    """What a caller may do with the value a `features` getter returned: accumulate into it. On the documented
    frozenset that rebinds the caller's own name (or raises AttributeError); it never reaches into the object."""
    n = 0
    try:
        f = obj.features
    except AttributeError:
        return 0
    try:
        f |= {wishbone.Feature.ERR, wishbone.Feature.BTE}
        n += 1
    except Exception:
        pass
    for meth, args in (("add", (wishbone.Feature.STALL,)), ("discard", (wishbone.Feature.LOCK,)),
                       ("update", ({wishbone.Feature.RTY},)), ("clear", ())):
        try:
            getattr(obj.features, meth)(*args)
            n += 1
        except (AttributeError, TypeError):
            pass
    return n


def refused_calls(rng, sigs):
    """Calls that are refused part-way (bad create() arguments, bad constructor parameters): whatever they leave
    behind must not affect the signatures built afterwards. Returns the number of refusals seen."""
    n = 0
    for sg in rng.sample(sigs, min(len(sigs), 6)):
        for kw in ({"path": 0}, {"path": 5.5}, {"src_loc_at": "x"}, {"nonsense": 1}):
            try:
                sg.create(**kw)
            except Exception:
                n += 1
    for build in (lambda: wishbone.Signature(addr_width=-1, data_width=8), lambda: wishbone.Signature(addr_width=4, data_width=12),
                  lambda: wishbone.Signature(addr_width=4, data_width=32, granularity=64),
                  lambda: wishbone.Signature(addr_width=4, data_width=32, features={"err", "foo"}),
                  lambda: wishbone.Signature(addr_width=4, data_width=32, features=5),
                  lambda: csr.Signature(addr_width=0, data_width=8), lambda: csr.Signature(addr_width="8", data_width=8),
                  lambda: csr.Element.Signature(-1, "rw"), lambda: csr.Element.Signature(8, "wr"),
                  lambda: csr.FieldPort.Signature("x", "rw"), lambda: csr.FieldPort.Signature(8, "rwx"),
                  lambda: event.Source.Signature(trigger="both")):
        try:
            build()
        except Exception:
            n += 1
    return n


def use_signature(cls, p, sg, rng):
    if cls == "wishbone.Signature":
        aw, dw, g, feats = p
        if aw > 64:
            return 0
        intf = sg.create(path=("used",))
        how = rng.choice(["sub", "sub", "init", "both"])
        if how in ("sub", "both") and aw + (dw // g).bit_length() - 1 >= 1:
            intf.memory_map = new_map(addr_width=aw + (dw // g).bit_length() - 1, data_width=g)
            dfe = (feats & {"err", "rty", "stall"}) | frozenset(f for f in FEATS if rng.random() < 0.3)
            dec = wishbone.Decoder(addr_width=aw + 2, data_width=dw, granularity=g, features=dfe)
            dec.add(intf, name="used")
            Fragment.get(dec, None)
        if how in ("init", "both"):
            arb = wishbone.Arbiter(addr_width=aw, data_width=dw, granularity=g,
                                   features=frozenset(f for f in feats if rng.random() < 0.7))
            arb.add(intf)
            arb.add(sg.create(path=("used2",)))
            Fragment.get(arb, None)
        return 1
    if cls == "csr.Signature":
        aw, dw = p
        if aw > 64:
            return 0
        intf = sg.create(path=("used",))
        intf.memory_map = new_map(addr_width=aw, data_width=dw)
        dec = csr.Decoder(addr_width=aw + 1, data_width=dw)
        dec.add(intf, name="used")
        Fragment.get(dec, None)
        return 1
    if cls == "csr.Element.Signature":
        w, a = p
        if w == 0:
            return 0
        mm = MemoryMap(addr_width=12, data_width=8)
        el = sg.create(path=("used",))

        class Holder(wiring.Component):
            def __init__(self):
                super().__init__({"element": Out(sg)})
        h = Holder()
        mm.add_resource(h, name="used", size=(w + 7) // 8)
        Fragment.get(csr.Multiplexer(mm), None)
        return 1
    if cls == "event.Source.Signature":
        src = sg.create(path=("used",))
        em = event.EventMap()
        em.add(src)
        Fragment.get(event.Monitor(em, trigger=rng.choice(["level", "rise", "fall"])), None)
        return 1
    return 0


def run_sig(case, rng, mon):
    cls = case["cls"]
    g = grid(cls, rng)
    sigs = [(p, f()) for p, f in g]
    mon.count("refused_calls_before_twins", refused_calls(rng, [sg for _p, sg in sigs]))
    if cls == "wishbone.Signature":
        for _p, sg in rng.sample(sigs, min(len(sigs), 200)):
            mon.count("feature_getters_poked", poke_features(sg))
            mon.count("feature_getters_poked", poke_features(sg.create(path=("poke",))))
    twins = [(p, f()) for p, f in g]           # independently constructed, equal parameters (after some refused calls)
    mism = []
    used = 0
    for p, sg in rng.sample(sigs, min(len(sigs), 48)):
        # put some of the signatures to use before they are compared: a signature describes an interface, it is
        # not altered by what the interface is then handed to
        try:
            used += use_signature(cls, p, sg, rng)
        except (ValueError, TypeError):
            pass
    mon.count("signatures_used_before_comparison", used)
    for (p, s), (_p, t) in zip(sigs, twins):
        # create() round-trip
        mon.counters["create_roundtrip"] += 1
        try:
            intf = s.create(path=("x",))
            ok = intf.signature == s
        except Exception as e:
            ok = False
            intf = e
        if not ok:
            mism.append(("create_roundtrip", f"{cls}{p}: create().signature != original ({intf!r})"))
        mon.counters["create_roundtrip"] += 1
        try:
            i2 = s.create(path=("y",))
            sigs1 = {id(v) for _p, _m, v in s.flatten(intf)} if not isinstance(intf, Exception) else set()
            sigs2 = {id(v) for _p, _m, v in s.flatten(i2)}
            if i2 is intf or (sigs1 & sigs2):
                mism.append(("create_roundtrip", f"{cls}{p}: two create() calls share objects / signals"))
        except Exception as e:
            mism.append(("create_roundtrip", f"{cls}{p}: second create() failed: {e!r}"))
        # members
        mon.counters["members_follow_params"] += 1
        got = {name: Shape.cast(m.shape).width for name, m in s.members.items() if m.is_port}
        if got != expected_members(cls, p):
            mism.append(("members_follow_params", f"{cls}{p}: members {got}, expected {expected_members(cls, p)}"))
        mon.counters["members_follow_params"] += 1
        got_t = {name: Shape.cast(m.shape).width for name, m in t.members.items() if m.is_port}
        if got_t != expected_members(cls, p):
            mism.append(("members_follow_params", f"{cls}{p} (built after refused calls): members {got_t}, expected "
                                                  f"{expected_members(cls, p)}"))
        # equal parameters, distinct objects
        mon.counters["eq_matches_params"] += 1
        if not (s == t) or (s != t):
            mism.append(("eq_matches_params", f"{cls}{p}: two signatures built from equal parameters compare unequal"))
    if cls == "wishbone.Signature":
        # the caller keeps (and later changes) the set it passed as `features`
        for k in range(8):
            mine = {wishbone.Feature(f) for f in FEATS if rng.random() < 0.5}
            frozen = frozenset(f.value for f in mine)
            s_ = wishbone.Signature(addr_width=4, data_width=32, granularity=8, features=mine)
            mine ^= {wishbone.Feature(f) for f in FEATS if rng.random() < 0.7}
            ref = wishbone.Signature(addr_width=4, data_width=32, granularity=8, features=frozen)
            mon.counters["eq_matches_params"] += 1
            if not (s_ == ref) or {f.value for f in s_.features} != set(frozen) or \
                    {n_ for n_ in s_.members if n_ in FEATS} != set(frozen):
                mism.append(("eq_matches_params", f"wishbone.Signature built from a set the caller later changed: features now "
                                                  f"{sorted(f.value for f in s_.features)}, built with {sorted(frozen)}"))
    if cls == "csr.FieldPort.Signature":
        # two distinct enumeration classes that happen to share their name, of different widths, used one after the other
        order = [2, 3, 5] if rng.random() < 0.5 else [5, 3, 2]
        for w_ in order:
            Mode = am_enum.Enum("Mode", {f"M{i}": i for i in range(1 << w_)} if w_ < 5 else {"A": 0, "B": (1 << w_) - 1})
            s_ = csr.FieldPort.Signature(Mode, "rw")
            mon.counters["members_follow_params"] += 1
            wid = Shape.cast(Mode).width
            got = Shape.cast(s_.members["r_data"].shape).width
            if got != wid or not (s_ == csr.FieldPort.Signature(unsigned(wid), "rw")):
                mism.append(("members_follow_params", f"FieldPort.Signature of a {wid}-bit enumeration named 'Mode' has {got}-bit "
                                                      f"data members (another enumeration of the same name was used before)"))
    n = len(sigs)
    total_pairs = n * n
    exhaustive = total_pairs <= case["pairs"]
    if exhaustive:
        pairs = itertools.product(range(n), range(n))
    else:
        pairs = ((rng.randrange(n), rng.randrange(n)) for _ in range(case["pairs"]))
    compared = 0
    for i, j in pairs:
        (p, s), (q, t) = sigs[i], twins[j]
        compared += 1
        if (s == t) != (p == q):
            mism.append(("eq_matches_params", f"{cls}: {p} == {q} evaluates to {s == t}, parameters "
                                              f"{'equal' if p == q else 'differ'}"))
            if len(mism) > 5:
                break
        if compared % 5 == 0:
            # mixed orientation: a plain signature against the flipped view a component port carries, both orders
            tf = t.flip()
            for a_, b_, how in ((s, tf, "plain == flipped"), (tf, s, "flipped == plain"), (s.flip(), tf, "flipped == flipped")):
                mon.counters["eq_matches_params"] += 1
                try:
                    got_eq = bool(a_ == b_)
                except Exception as e:
                    got_eq = f"raised {type(e).__name__}"
                if got_eq != (p == q):
                    mism.append(("eq_matches_params", f"{cls}: {p} vs {q} ({how}) evaluates to {got_eq}, parameters "
                                                      f"{'equal' if p == q else 'differ'}"))
    mon.counters["eq_matches_params"] += compared
    # a signature never equals an unrelated object / another class's signature
    foreign = {"csr.Signature": lambda: csr.Signature(addr_width=4, data_width=8),
               "csr.Element.Signature": lambda: csr.Element.Signature(8, "rw"),
               "csr.FieldPort.Signature": lambda: csr.FieldPort.Signature(unsigned(8), "rw"),
               "wishbone.Signature": lambda: wishbone.Signature(addr_width=4, data_width=8, features={"err"}),
               "event.Source.Signature": lambda: event.Source.Signature(trigger="rise"),
               "gpio.PinSignature": lambda: gpio.PinSignature()}
    others = [None, 5, "x", wiring.Signature({})]
    for name_, make in foreign.items():
        if name_ != cls:
            others += [make(), make().flip()]      # another class's signature, also as the flipped view a port carries
    for mine in ([sigs[0][1], sigs[-1][1]] if sigs else []) + ([foreign[cls]()] if cls in foreign else []):
        for other in others:
            mon.counters["eq_matches_params"] += 1
            try:
                same = (mine == other) or (other == mine)
            except Exception as e:
                same = f"raised {type(e).__name__}: {e}"
            if same:
                mism.append(("eq_matches_params", f"{cls}: {mine!r} == {other!r} gives {same}"))
    if cls in foreign:
        # a project's own subclass of the signature class (it adds nothing): create() still round-trips, the instance
        # still equals the library's signature of the same parameters and is still compliant with what it creates
        base_obj = foreign[cls]()
        Sub = type("Project" + type(base_obj).__name__, (type(base_obj),), {})
        try:
            mine = Sub.__new__(Sub)
            mine.__dict__.update(base_obj.__dict__)        # same parameters, same members, the subclass's type
            intf = mine.create(path=("sub",))
            checks_ = {"create().signature == original": intf.signature == mine,
                       "subclass instance == library signature": mine == foreign[cls](),
                       "library signature == subclass instance": foreign[cls]() == mine,
                       "is_compliant(create())": mine.is_compliant(intf)}
        except Exception as e:
            checks_ = {f"raised {type(e).__name__}: {e}": False}
        for what, ok_ in checks_.items():
            mon.counters["create_roundtrip"] += 1
            if not ok_:
                mism.append(("create_roundtrip", f"{cls}: trivial subclass of the signature class: {what} is false"))
    for name, msg in mism[:6]:
        mon.violations.append({"monitor": name, "mechanism": f"{cls}:{name}", "msg": msg, "detail": {}})
    mon.bin("signature_classes", cls)
    mon.count("signatures_in_grid", n)
    mon.count("pairs_compared", compared)
    summary = {"kind": "sig", "cls": cls, "grid": n, "pairs": compared, "pairs_exhaustive": exhaustive, "stim": case["stim_seed"]}
    return mon.result(nontrivial=compared >= 20 or cls == "gpio.PinSignature", summary=summary)


def run_toplevel(mon):
    """create() / constructors / connect() called from the module level of a script run as a subprocess: the
    shallowest call stack a user can have (build scripts, REPL, python -c)."""
    import json
    import os
    import subprocess
    import sys
    script = os.path.join(env.VERIF, "vmon", "toplevel_script.py")
    e = dict(os.environ, VERIF_REPO=env.REPO, PYTHONDONTWRITEBYTECODE="1")
    try:
        p = subprocess.run([sys.executable, script], capture_output=True, text=True, timeout=300, env=e, cwd="/var/tmp")
        out = json.loads(p.stdout.strip().splitlines()[-1])
    except Exception as exc:
        mon.count("toplevel_script_inconclusive")
        return mon.result(nontrivial=False, summary={"kind": "toplevel", "error": repr(exc)[:200]})
    mon.count("module_level_calls", out["done"])
    for f in out["failures"][:8]:
        mon.violations.append({"monitor": "module_level_calls", "mechanism": "toplevel:" + f.split(":")[0],
                               "msg": f"called at the module level of a script: {f}"[:400], "detail": {}})
    return mon.result(nontrivial=out["done"] > 20, summary={"kind": "toplevel", "done": out["done"]})


def run_case(case):
    if case.get("kind") == "toplevel":
        return run_toplevel(Mon())
    if case.get("suite"):
        return suite_case(Mon(), ['C20'], ['C20_creates'])
    rng = random.Random(case["stim_seed"])
    mon = Mon()
    if case["kind"] == "connect":
        return run_connect(case, rng, mon)
    return run_sig(case, rng, mon)


LEVEL_TEXT = ("Runtime checks on live objects: wiring.connect() of the complementary standard interface to every bus-facing "
              "port of generated component instances (and elaboration of the connected design), and for every signature "
              "class create() round-trip, pairwise equality against parameter equality over a grid (all 64 Wishbone "
              "feature subsets), and member presence/width.")
LEVEL_NOTE = "Trusted: Amaranth lib.wiring, CPython. Grids are enumerated; pairwise equality is exhaustive where the evidence says so, sampled otherwise."
TECHNIQUE = "runtime monitoring: API-level oracle on live objects (connect success, signature equality vs parameter equality)"
DESIGN_REF = "DESIGN.md section 4, C20"
