# amaranth: UnusedElaboratable=no
"""C07 - Wishbone decoder selects one subordinate and relays only its responses.

A real wishbone.Decoder over bare subordinate interfaces. Every request signal is random on
every cycle (addresses biased to window boundaries); the subordinate that is selected answers
with random ack/err/rty/stall, unselected ones keep their response lines low (as Wishbone
requires), all present arbitrary dat_r. Per-cycle oracle built from memory_map.windows().
"""
import random

from vmon import env  # noqa: F401
from vmon.simkit import Top, Mon, simulate, bits, biased_bits, spell_features, new_map

from amaranth import Value
from amaranth.lib.wiring import flipped
from amaranth_soc import wishbone
from amaranth_soc.wishbone import Feature
from amaranth_soc.memory import MemoryMap

ID = "C07"
RULE = ("cases = decoder geometry (addr width 0-12, data width 8-64, granularity <= width, any of the 64 feature subsets, "
        "alignment 0-3) x 0-5 subordinates (dense windows between equal-granularity buses, or sparse word-aligned windows; "
        "compatible feature subsets; implicit/align_to/explicit placement; named/anonymous) x random per-cycle requests and "
        "responses; distinct = distinct geometry+windows+stimulus; non-trivial = run with >= 2 windows in which every window "
        "was selected with cyc and an acknowledge was relayed")
ASSUMPTIONS = ["Amaranth simulator is faithful", "windows() ranges as ground truth; three-zone rule for padded windows",
               "subordinates respond only while selected (part of the property's premise)",
               "not asserted: address received by a sparse subordinate; dat_r while cyc is low and a window matches"]
REQUIRED = ["sel_cyc", "one_cyc", "fwd_request", "fwd_adr_dense", "fwd_sel_dense", "fwd_optional", "relay_ack",
            "relay_dat_r", "nobody_selected_silent"]

ALL_FEATURES = ["err", "rty", "stall", "lock", "cti", "bte"]


def n_cases(tier):
    return 800 if tier == "quick" else 10000


def gen_case(rng, tier, idx):
    if idx % 40 == 39:
        # sparse windows smaller than one bus word: which of them a word address selects is not defined at word
        # resolution (not asserted), but "at most one subordinate sees the cycle signal" is
        dw = rng.choice([16, 32, 64])
        return {"kind": "subword", "dw": dw, "gran": 8, "aw": rng.choice([2, 3, 4, 6]), "n": rng.randint(2, 5),
                "features": [f for f in ALL_FEATURES if rng.random() < 0.3], "cycles": 150 if tier == "quick" else 400}
    dw = rng.choice([8, 16, 32, 64])
    gran = rng.choice([g for g in (8, 16, 32, 64) if g <= dw])
    gbits = (dw // gran).bit_length() - 1
    aw = rng.choice([0, 1, 2, 3, 4, 5, 6, 8, 10, 12, 16, 24, 30])
    feats = [f for f in ALL_FEATURES if rng.random() < 0.5]
    return {"aw": aw, "dw": dw, "gran": gran, "features": feats,
            "al": rng.choice([0, 0, 0, 1, 2, 3]), "nsubs": rng.choice([0, 1, 2, 3, 4, 5, 8, 17, 20, 33]) if aw >= 6 else rng.choice([0, 1, 2, 3, 4, 5]),
            "query_between_adds": rng.random() < 0.4,
            "cycles": (250 if tier == "quick" else 700) * (8 if rng.random() < 0.04 else 1)}


def run_subword(case, rng):
    aw, dw, gran = case["aw"], case["dw"], case["gran"]
    gbits = (dw // gran).bit_length() - 1
    dfeat = set(case["features"])
    dec = wishbone.Decoder(addr_width=aw, data_width=dw, granularity=gran, features=dfeat)
    subs = []
    for i in range(case["n"]):
        s_aw = rng.choice([0, 1, 1, gbits - 1]) if gbits > 1 else 0
        sub = wishbone.Interface(addr_width=s_aw, data_width=gran, granularity=gran,
                                 features={f for f in dfeat if rng.random() < 0.5}, path=(f"b{i}",))
        sub.memory_map = new_map(addr_width=max(1, s_aw), data_width=gran)
        try:
            dec.add(sub, sparse=True)
            subs.append(sub)
        except ValueError:
            pass
    mon = Mon()
    bus = dec.bus

    async def bench(ctx):
        for c in range(case["cycles"]):
            mon.cycle = c
            ctx.set(bus.adr, rng.randrange(1 << aw))
            ctx.set(bus.cyc, int(rng.random() < 0.8))
            ctx.set(bus.stb, rng.getrandbits(1))
            ctx.set(bus.sel, rng.getrandbits(dw // gran))
            seen = [i for i, s in enumerate(subs) if ctx.get(s.cyc)]
            mon.log({"c": c, "adr": ctx.get(bus.adr), "cyc": ctx.get(bus.cyc), "subordinates_seeing_cyc": seen})
            mon.ok("one_cyc", len(seen) <= 1, f"{len(seen)} sub-word sparse subordinates see cyc at once: {seen}")
            if len(seen) == 1:
                mon.count("subword_window_selected")
            await ctx.tick()

    simulate(Top({"dec": dec}), bench, mon)
    mon.count("cycles", mon.cycle + 1)
    mon.count("designs_with_sub_word_sparse_windows")
    return mon.result(nontrivial=len(subs) >= 2, summary={"kind": "subword", "aw": aw, "dw": dw, "n": len(subs),
                                                          "stim": case["stim_seed"]})


def run_case(case):
    rng = random.Random(case["stim_seed"])
    if case.get("kind") == "subword":
        return run_subword(case, rng)
    aw, dw, gran = case["aw"], case["dw"], case["gran"]
    gbits = (dw // gran).bit_length() - 1
    map_aw = max(1, aw + gbits)
    dfeat = set(case["features"])
    from vmon.simkit import omit
    dec = wishbone.Decoder(**omit(rng, "wishbone", addr_width=aw, data_width=dw, granularity=gran,
                                  features=spell_features(rng, dfeat), alignment=case["al"]))
    replaced_map = 0
    if rng.random() < 0.1:
        # the decoder's own memory map is replaced (through the public setter) by an equivalent one the project built
        # itself, before any subordinate is added
        dec.bus.memory_map = MemoryMap(addr_width=map_aw, data_width=gran, alignment=case["al"])
        replaced_map = 1
    subs = []
    accepted = []        # (window map, range add() returned)
    owner = {}           # window map -> (interface, sparse, features); an interface may own two windows (alias)
    aliases = 0
    port_subs = 0
    for i in range(case["nsubs"]):
        sparse = rng.random() < 0.3 and gbits > 0
        sfeat = {f for f in ALL_FEATURES if rng.random() < 0.5 and (f in dfeat or f in ("lock", "cti", "bte"))}
        many = case["nsubs"] > 8
        if sparse:
            s_dw = s_gran = gran
            s_aw = rng.randint(gbits, max(gbits, (map_aw - 5) if many else (map_aw - 1)))      # at least one bus word long
            s_map_aw = max(1, s_aw)
        else:
            s_dw, s_gran = dw, gran
            s_aw = rng.randint(0, max(0, (aw - 6) if many else (aw - 1)))
            if case["nsubs"] == 1 and rng.random() < 0.5:
                s_aw = aw          # one window spanning the decoder's whole address range
            s_map_aw = max(1, s_aw + gbits)
        if s_map_aw >= map_aw and not (s_map_aw == map_aw and case["nsubs"] == 1):
            continue
        sub = wishbone.Interface(addr_width=s_aw, data_width=s_dw, granularity=s_gran, features=spell_features(rng, sfeat),
                                 path=(f"s{i}",))
        sub.memory_map = new_map(addr_width=s_map_aw, data_width=s_gran)
        if rng.random() < 0.35:
            # what a peripheral's or nested decoder's own port is: the flipped view of the interface (same signals)
            sub = flipped(sub)
            port_subs += 1
        if rng.random() < 0.3:
            try:
                dec.align_to(rng.randint(0, map_aw))
            except ValueError:
                pass
        kw = {}
        if rng.random() < 0.35:
            kw["addr"] = rng.randrange(1 << map_aw) // (1 << s_map_aw) * (1 << s_map_aw)
        try:
            granted = dec.add(sub, name=None if rng.random() < 0.5 else f"w{i}", sparse=sparse, **kw)
        except ValueError:
            continue
        subs.append((sub, sparse, sfeat))
        accepted.append((id(sub.memory_map), tuple(granted)))
        owner[id(sub.memory_map)] = (sub, sparse, sfeat)
        if rng.random() < 0.08:
            # an alias window: the same interface is given a second memory map and added again (a ROM visible at two
            # addresses); both windows select it
            first_map, alias_map = sub.memory_map, MemoryMap(addr_width=s_map_aw, data_width=s_gran)
            sub.memory_map = alias_map
            try:
                granted2 = dec.add(sub, sparse=sparse)
                accepted.append((id(alias_map), tuple(granted2)))
                owner[id(alias_map)] = (sub, sparse, sfeat)
                aliases += 1
            except ValueError:
                sub.memory_map = first_map
        if rng.random() < 0.1:
            try:
                dec.add(sub, sparse=sparse)      # the same subordinate again: refused, and nothing may change
            except ValueError:
                pass
        if rng.random() < 0.12:
            # another interface object carrying the same memory map is offered to the same decoder: refused (the map
            # is already a window), and nothing may change
            twin_port = wishbone.Interface(addr_width=sub.addr_width, data_width=sub.data_width, granularity=sub.granularity,
                                           features=sfeat, path=(f"twin{i}",))
            twin_port.memory_map = sub.memory_map
            try:
                dec.add(twin_port, sparse=sparse)
            except ValueError:
                pass
        if case.get("query_between_adds") and rng.random() < 0.15:
            from amaranth.hdl import Fragment
            Fragment.get(dec, None)   # bring-up elaboration of a partly populated decoder
        if case.get("query_between_adds") and rng.random() < 0.5:
            # read-only queries on a partly populated decoder must not change what is built later
            mm_ = dec.bus.memory_map
            list(mm_.window_patterns()), list(mm_.windows()), list(mm_.all_resources()), mm_.decode_address(0)
    xbar = None
    if subs and rng.random() < 0.25:
        other = wishbone.Decoder(addr_width=aw, data_width=dw, granularity=gran, features=dfeat, alignment=case["al"])
        # the second master sees the shared peripherals at other base addresses (reverse order, another start)
        xsubs = list(reversed(subs)) if rng.random() < 0.7 else list(subs)
        if rng.random() < 0.5:
            try:
                other.align_to(rng.randint(1, map_aw))
            except ValueError:
                pass
        for sub, sparse, sfeat in xsubs:
            port = wishbone.Interface(addr_width=sub.addr_width, data_width=sub.data_width, granularity=sub.granularity,
                                      features=sfeat, path=("xbar",))
            port.memory_map = sub.memory_map         # a second port onto the same peripheral (crossbar)
            try:
                other.add(port, sparse=sparse)
            except ValueError:
                pass
        xbar = other
    by_map = owner
    wins = []
    for w, _n, (s, e, ratio) in dec.bus.memory_map.windows():
        sub, sparse, sfeat = by_map[id(w)]
        true_end = s + (1 << w.addr_width)
        # word-level view (decoder adr units)
        assert s % (1 << gbits) == 0 and true_end % (1 << gbits) == 0 and e % (1 << gbits) == 0, (s, true_end, e)
        # "w": the same three-zone range in decoder adr (word) units
        wins.append({"sub": sub, "sparse": sparse, "feat": sfeat, "g": (s, true_end, e),
                     "w": (s >> gbits, true_end >> gbits, e >> gbits)})
    bus = dec.bus
    mon = Mon()
    # what add() granted is what the decoder's memory map reports (the hardware below is judged against that map)
    reported = {(id(w_), (s_, e_, r_)) for w_, _n, (s_, e_, r_) in dec.bus.memory_map.windows()}
    mon.run(lambda: mon.ok("add_result_reported", all(a in reported for a in accepted),
                           f"ranges returned by accepted add() calls {[a[1] for a in accepted if a not in reported][:3]} are not "
                           f"windows of the decoder's memory map"))
    if mon.violations:
        return mon.result(summary={"aw": aw, "dw": dw, "stim": case["stim_seed"]})
    nwords = 1 << aw
    edges = sorted({a for w in wins for a in (w["w"][0], w["w"][0] - 1, w["w"][1] - 1, w["w"][1], w["w"][2] - 1, w["w"][2])
                    if 0 <= a < nwords})
    st = {"selected": set(), "acks": 0}
    nsel = dw // gran

    def setv(ctx, sig, v):
        ctx.set(Value.cast(sig), v)

    def getv(ctx, sig):
        return ctx.get(Value.cast(sig))

    async def bench(ctx):
        for c in range(case["cycles"]):
            mon.cycle = c
            adr = rng.choice(edges) if edges and rng.random() < 0.5 else rng.randrange(nwords)
            req = {"adr": adr, "cyc": int(rng.random() < 0.75), "stb": int(rng.random() < 0.7), "we": rng.getrandbits(1),
                   "dat_w": biased_bits(rng, dw), "sel": biased_bits(rng, nsel)}
            if "lock" in dfeat:
                req["lock"] = rng.getrandbits(1)
            if "cti" in dfeat:
                req["cti"] = rng.choice([0, 1, 2, 7])
            if "bte" in dfeat:
                req["bte"] = rng.getrandbits(2)
            for k, v in req.items():
                if k == "adr" and aw == 0:
                    continue
                setv(ctx, getattr(bus, k), v)
            # zone of this address
            sel, zone = None, "outside"
            for j, w in enumerate(wins):
                ws, wt, we_ = w["w"]
                if ws <= adr < wt:
                    sel, zone = j, "span"
                elif wt <= adr < we_:
                    sel, zone = j, "padding"
            # subordinate responses: only the selected one (sees cyc) may respond
            resp = []
            sel_sub = wins[sel]["sub"] if sel is not None else None
            for j, w in enumerate(wins):
                sub = w["sub"]
                if j != sel and sub is sel_sub:
                    resp.append(None)         # alias window of the selected interface: its signals are set once, below
                    continue
                r = {"ack": 0, "dat_r": bits(rng, len(sub.dat_r))}
                active = (j == sel and zone == "span" and req["cyc"])
                if active:
                    r["ack"] = rng.getrandbits(1)
                for f in ("err", "rty", "stall"):
                    if f in w["feat"]:
                        r[f] = rng.getrandbits(1) if active else 0
                for k, v in r.items():
                    setv(ctx, getattr(sub, k), v)
                resp.append(r)
            mon.log({"c": c, **req, "sel": sel, "zone": zone})
            n_cyc = 0
            for j, w in enumerate(wins):
                sub = w["sub"]
                if j != sel and sub is sel_sub:
                    continue                  # the other window of the selected interface
                got_cyc = getv(ctx, sub.cyc)
                n_cyc += got_cyc
                if j == sel and zone == "padding":
                    mon.count("padding_zone_not_asserted")
                    if got_cyc and not w["sparse"]:
                        # selection itself is not asserted here, but a selected subordinate "receives the offset
                        # within its window as address": a padding offset does not fit its address lines
                        off = adr - w["w"][0]
                        mon.eq("fwd_adr_padding", getv(ctx, sub.adr) if len(sub.adr) else 0, off,
                               f"subordinate {j} is selected in its padding at bus adr {adr} and cannot be handed offset {off}")
                    else:
                        mon.count("fwd_adr_padding")
                    continue
                exp_cyc = req["cyc"] if j == sel else 0
                mon.eq("sel_cyc", got_cyc, exp_cyc,
                       f"subordinate {j} (words [{w['w'][0]},{w['w'][1]})) cyc at adr {adr} with bus.cyc={req['cyc']}")
                if j == sel and req["cyc"]:
                    st["selected"].add(j)
                    mon.eq("fwd_request", (getv(ctx, sub.stb), getv(ctx, sub.we), getv(ctx, sub.dat_w)),
                           (req["stb"], req["we"], req["dat_w"] & ((1 << len(sub.dat_w)) - 1)) if w["sparse"]
                           else (req["stb"], req["we"], req["dat_w"]), f"subordinate {j} stb/we/dat_w")
                    if not w["sparse"]:
                        off = adr - w["w"][0]
                        if len(sub.adr):
                            mon.eq("fwd_adr_dense", getv(ctx, sub.adr), off & ((1 << len(sub.adr)) - 1),
                                   f"subordinate {j} adr (offset in its window) for bus adr {adr}")
                        else:
                            mon.count("fwd_adr_dense")
                        mon.eq("fwd_sel_dense", getv(ctx, sub.sel), req["sel"], f"subordinate {j} sel")
                    for f, default in (("lock", 0), ("cti", 0), ("bte", 0)):
                        if f in w["feat"]:
                            mon.eq("fwd_optional", getv(ctx, getattr(sub, f)), req.get(f, default),
                                   f"subordinate {j} {f} (decoder {'has' if f in dfeat else 'lacks'} it)")
            mon.ok("one_cyc", n_cyc <= 1, f"{n_cyc} subordinates see cyc at adr {adr}")
            if zone == "span":
                r = resp[sel]
                if req["cyc"]:
                    mon.eq("relay_ack", getv(ctx, bus.ack), r["ack"], f"upstream ack vs selected subordinate {sel}")
                    st["acks"] += r["ack"]
                    for f in ("err", "rty", "stall"):
                        if f in dfeat:
                            mon.eq("relay_" + f, getv(ctx, getattr(bus, f)), r.get(f, 0),
                                   f"upstream {f} vs selected subordinate {sel} (0 if it lacks the signal)")
                    mon.eq("relay_dat_r", getv(ctx, bus.dat_r), r["dat_r"], f"upstream dat_r vs selected subordinate {sel}")
                else:
                    mon.eq("relay_ack", getv(ctx, bus.ack), 0, "upstream ack while cyc is low")
            elif zone == "outside":
                got = (getv(ctx, bus.ack), getv(ctx, bus.dat_r)) + tuple(getv(ctx, getattr(bus, f))
                                                                      for f in ("err", "rty", "stall") if f in dfeat)
                mon.ok("nobody_selected_silent", not any(got),
                       f"adr {adr} selects nobody but upstream (ack, dat_r, err/rty/stall) = {got}")
            await ctx.tick()

    # the crossbar twin is part of the design and is elaborated before the monitored decoder
    top = Top({"xbar": xbar, "dec": dec} if xbar is not None else {"dec": dec})
    if rng.random() < 0.2:
        top.unclocked = ("dec", "xbar")      # the decoder is purely combinational
        mon.count("decoder_in_a_stopped_clock_domain")
    simulate(top, bench, mon)
    mon.count("designs_with_crossbar_twin", int(xbar is not None))
    mon.count("cycles", mon.cycle + 1)
    mon.count("subordinates_given_as_component_ports", port_subs)
    mon.count("decoders_whose_own_map_was_replaced", replaced_map)
    mon.count("alias_windows", aliases)
    mon.bin("n_windows", len(wins))
    mon.bin("decoder_features", tuple(sorted(dfeat)))
    for w in wins:
        mon.bin("window_kinds", "sparse" if w["sparse"] else "dense")
        if w["g"][2] > w["g"][1]:
            mon.bin("window_kinds", "padded")
    summary = {"aw": aw, "dw": dw, "gran": gran, "features": sorted(dfeat), "al": case["al"],
               "windows": [(w["g"], "sparse" if w["sparse"] else "dense", sorted(w["feat"])) for w in wins],
               "stim": case["stim_seed"]}
    nontrivial = len(wins) >= 2 and len(st["selected"]) == len(wins) and st["acks"] > 0
    return mon.result(nontrivial=nontrivial, summary=summary)


LEVEL_TEXT = ("Online per-cycle oracle over simulations of the real wishbone.Decoder: selection, request fan-out and "
              "response fan-in compared with the expectation derived from memory_map.windows(), all inputs random.")
LEVEL_NOTE = "Trusted: Amaranth simulator, CPython, windows() as ground truth (C02). Dense windows onto finer-granularity subordinates are outside the property's domain."
TECHNIQUE = "runtime monitoring: per-cycle selection/relay oracle over randomized simulation"
DESIGN_REF = "DESIGN.md section 4, C07"
