# amaranth: UnusedElaboratable=no
"""C12 - field actions keep, set and clear storage exactly as documented.

Each case instantiates one real field action (or a register with a reserved field between two
RW fields), drives every input with fresh random values on every cycle and compares every
output with a bit-level next-state model on every cycle.
"""
import enum as py_enum
import random

from vmon import env  # noqa: F401
from vmon.simkit import Top, Mon, simulate, bits, biased_bits, reset_plan, drive_reset

from amaranth import Const, Shape, Value, unsigned, signed
from amaranth.hdl import Format, ShapeCastable
from amaranth.lib import data
from amaranth.lib import enum as am_enum

from amaranth_soc import csr
from amaranth_soc.csr import action

ID = "C12"
RULE = ("cases = one field action (R, W, RW, RW1C, RW1S; unsigned 0-8, signed 1-8, enum shapes; random init) or "
        "a register [RW, reserved, RW] for each reserved action, with w_stb/w_data/r_stb/set/clear/r_data random "
        "every cycle (biased so set and clear coincide); distinct = distinct (action, shape, init, stimulus seed); "
        "non-trivial = storage action whose run saw a set/clear tie or a write, or a pass-through/reserved run with "
        ">= 50 compared cycles")
ASSUMPTIONS = ["Amaranth simulator is faithful", "bit-level next-state model of DESIGN.md C12 (set wins ties)"]
REQUIRED = ["storage_eq_model", "data_eq_port", "passthrough", "reserved_zero"]


class E2(am_enum.Enum, shape=unsigned(2)):
    A = 0
    B = 1
    C = 2
    D = 3


class E3(am_enum.Enum, shape=unsigned(3)):
    P = 0
    Q = 5
    R = 7


class Speed(py_enum.Enum):
    """A plain Python enumeration without a zero-valued member (a field whose encoding starts at 1)."""
    LOW = 1
    FULL = 2
    HIGH = 3


class SpeedI(py_enum.IntEnum):
    LOW = 1
    FULL = 2
    HIGH = 3


class OffsetBinary(ShapeCastable):
    """A project-defined shape-castable that gives integers a meaning of its own: the constant for the integer v is
    the bit pattern v with the top bit inverted (offset binary). The field must start from `const(init)`."""

    def __init__(self, width):
        self.width = width

    def as_shape(self):
        return unsigned(self.width)

    def const(self, init):
        return Const((int(init or 0) ^ (1 << (self.width - 1))) & ((1 << self.width) - 1), self.width)

    def __call__(self, value):
        return value

    def from_bits(self, raw):
        return raw ^ (1 << (self.width - 1))        # the integer whose constant has these bits

    def format(self, value, spec):
        return Format("{}", Value.cast(value))

    def __repr__(self):
        return f"OffsetBinary({self.width})"


SHAPES = {"e2": E2, "e3": E3, "pe": Speed, "pi": SpeedI}


def mk_shape(desc):
    kind, w = desc
    if kind == "u":
        return unsigned(w)
    if kind == "s":
        return signed(w)
    if kind == "r":
        return range(w[0], w[1])
    if kind == "a":
        return data.ArrayLayout(unsigned(w[0]), w[1])
    if kind == "st":
        return data.StructLayout({f"m{i}": unsigned(x) for i, x in enumerate(w)})
    if kind == "fx":
        return OffsetBinary(w)
    return SHAPES[kind]


def shape_width(desc):
    kind, w = desc
    if kind == "r":
        return Shape.cast(range(w[0], w[1])).width
    if kind == "a":
        return w[0] * w[1]
    if kind == "st":
        return sum(w)
    return {"e2": 2, "e3": 3, "pe": 2, "pi": 2}.get(kind, w)


def n_cases(tier):
    return 1200 if tier == "quick" else 16000


def gen_case(rng, tier, idx):
    act = rng.choice(["R", "W", "RW", "RW1C", "RW1S", "RW", "RW1C", "RW1S", "RES"])
    r = rng.random()
    if r < 0.08:
        shape = ("u", rng.choice([31, 32, 33, 63, 64, 65, 96, 128, 129]))
    elif r < 0.6:
        shape = ("u", rng.choice([0, 1, 1, 2, 2, 3, 3, 4, 5, 6, 7, 8]))
    elif r < 0.74:
        shape = ("s", rng.randint(1, 8))
    elif r < 0.77:
        # aggregate shapes (lib.data layouts): an array of multi-bit lanes, a struct of unequal members
        shape = rng.choice([("a", [rng.choice([1, 2, 3]), rng.choice([1, 2, 3])]),
                            ("st", [rng.choice([1, 2, 3]) for _ in range(rng.choice([1, 2, 3]))])])
    elif r < 0.8:
        # a Python range containing 0 (so that the documented default init of 0 is legal), often with a negative start
        shape = ("r", [rng.choice([0, -1, -2, -4, -5, -8]), rng.choice([1, 2, 3, 4, 8, 9])])
    elif r < 0.84:
        # a project-defined shape-castable whose constants are not the identity on integers
        shape = ("fx", rng.randint(1, 8))
    elif r < 0.88:
        # plain Python enumerations (Enum / IntEnum) whose members do not include 0
        shape = (rng.choice(["pe", "pi"]), 0)
    else:
        shape = (rng.choice(["e2", "e3"]), 0)
    w = shape_width(shape)
    init = rng.getrandbits(w) if w else 0
    if shape[0] == "e3":
        init = rng.choice([0, 5, 7])
    if shape[0] == "r":
        init = rng.randrange(shape[1][0], shape[1][1]) & ((1 << w) - 1)
    case = {"action": act, "shape": list(shape), "init_bits": init if rng.random() < 0.8 else 0,
            "cycles": (200 if tier == "quick" else 600) * (10 if rng.random() < 0.04 else 1)}
    if act == "RES":
        case["res"] = rng.choice(["ResRAW0", "ResRAWL", "ResR0WA", "ResR0W0"])
        case["widths"] = [rng.randint(0, 5), rng.randint(0, 5), rng.randint(0, 5)]
    return case


def init_value(desc, init_bits):
    kind, w = desc
    if kind == "s":
        return init_bits - (1 << w) if init_bits >> (w - 1) else init_bits
    if kind == "r":
        wid = shape_width(desc)
        return init_bits - (1 << wid) if (w[0] < 0 and init_bits >> (wid - 1)) else init_bits
    if kind == "a":
        return [(init_bits >> (i * w[0])) & ((1 << w[0]) - 1) for i in range(w[1])]
    if kind == "st":
        out, pos = {}, 0
        for i, x in enumerate(w):
            out[f"m{i}"] = (init_bits >> pos) & ((1 << x) - 1)
            pos += x
        return out
    if kind in ("pe", "pi"):
        return SHAPES[kind](init_bits) if init_bits in (1, 2, 3) and init_bits != 2 else init_bits   # member or plain int
    if kind in SHAPES:
        return SHAPES[kind](init_bits)
    if kind == "fx":
        return init_bits ^ (1 << (w - 1))
    return init_bits


def run_case(case):
    rng = random.Random(case["stim_seed"])
    if case["action"] == "RES":
        return run_reserved(case, rng)
    desc = tuple(case["shape"])
    w = shape_width(desc)
    mask = (1 << w) - 1
    shape = mk_shape(desc)
    act = case["action"]
    init_bits = case["init_bits"] & mask
    from vmon.simkit import decoy
    shared_desc = False
    if act in ("RW", "RW1C", "RW1S") and rng.random() < 0.4:
        # the documented way: one csr.Field description, instantiated more than once (e.g. an array of channels);
        # every instance must get the described init
        fld = csr.Field(getattr(action, act), shape, init=init_value(desc, init_bits))
        fld.create()
        if rng.random() < 0.5:
            fld.create()
        dut = fld.create()
        shared_desc = True
    elif act in ("RW", "RW1C", "RW1S"):
        decoy(rng, lambda: getattr(action, act)(shape, init=init_value(desc, init_bits)))
        from vmon.simkit import omit
        kw_init = omit(rng, "action", init=init_value(desc, init_bits))
        if "init" in kw_init and desc[0] == "u" and w and rng.random() < 0.2:
            # the same bit pattern spelled as a negative integer (init=-1 is the all-ones idiom)
            kw_init["init"] = init_bits - (1 << w)
            mon_negative_init = True
        elif "init" in kw_init and desc[0] == "s" and init_bits >> (w - 1) and rng.random() < 0.4:
            # a signed field whose initial value is written as the raw bit pattern (a hex literal with the top bit set)
            kw_init["init"] = init_bits
        elif init_bits == 0 and desc[0] != "fx" and rng.random() < 0.3:
            kw_init = {"init": None}           # "no particular initial value": the documented default applies
        dut = getattr(action, act)(shape, **kw_init)
    else:
        decoy(rng, lambda: getattr(action, act)(shape))
        dut = getattr(action, act)(shape)
    port = dut.port
    mon = Mon()
    if shared_desc:
        mon.count("actions_from_a_shared_field_description")
    if act in ("RW", "RW1C", "RW1S") and hasattr(dut, "init"):
        # what the action reports as its initial value is the value it was given (modulo 2**width: a normalised
        # representation is fine) - callers build shadows and documentation from it
        try:
            rep = int(dut.init)
        except Exception:
            rep = None
        if rep is not None:
            arg_bits = init_bits ^ (1 << (w - 1)) if desc[0] == "fx" else init_bits
            mon.run(lambda: mon.ok("reported_init", (rep - arg_bits) % (1 << w) == 0 if w else True,
                                   f"{act}({shape!r}, init={init_value(desc, init_bits)!r}).init reports {dut.init!r}"))
    st = {"storage": init_bits, "nontrivial": False, "compared": 0}

    def get(ctx, sig):
        return ctx.get(Value.cast(sig)) & mask if w else 0

    def put(ctx, sig, v):
        if w:
            ctx.set(Value.cast(sig), v)

    resets = reset_plan(case["cycles"])

    async def bench(ctx):
        for c in range(case["cycles"]):
            mon.cycle = c
            drive_reset(ctx, c in resets)
            w_stb = int(rng.random() < 0.4)
            r_stb = int(rng.random() < 0.5)
            w_data = biased_bits(rng, w)
            hw = biased_bits(rng, w)               # set / clear / r_data
            if rng.random() < 0.3:
                hw = w_data                         # force ties between hardware input and written ones
            ctx.set(port.w_stb, w_stb)
            ctx.set(port.r_stb, r_stb)
            put(ctx, port.w_data, w_data)
            if act == "R":
                put(ctx, dut.r_data, hw)
            if act == "RW1C":
                put(ctx, dut.set, hw)
            if act == "RW1S":
                put(ctx, dut.clear, hw)
            mon.log({"c": c, "w_stb": w_stb, "w_data": w_data, "r_stb": r_stb, "hw": hw,
                     "model_storage": st["storage"]})
            if act == "R":
                mon.eq("passthrough", get(ctx, port.r_data), hw, "R: port.r_data must equal r_data in the same cycle")
                mon.eq("passthrough", ctx.get(dut.r_stb), r_stb, "R: r_stb must equal port.r_stb")
                st["compared"] += 1
            elif act == "W":
                mon.eq("passthrough", get(ctx, dut.w_data), w_data, "W: w_data must equal port.w_data")
                mon.eq("passthrough", ctx.get(dut.w_stb), w_stb, "W: w_stb must equal port.w_stb")
                st["compared"] += 1
            else:
                s = st["storage"]
                rd = get(ctx, port.r_data)
                mon.eq("storage_eq_model", rd, s, f"{act}: bus-read value of storage")
                mon.eq("data_eq_port", get(ctx, dut.data), rd, f"{act}: data output vs port.r_data")
                if w <= 3:
                    mon.bin(f"state:{act}:w{w}", (s, w_stb, w_data, hw))
                # next state
                if act == "RW":
                    if w_stb:
                        s = w_data
                        st["nontrivial"] = True
                elif act == "RW1C":
                    clr = w_data if w_stb else 0
                    if clr & hw:
                        mon.count("set_clear_ties")
                        st["nontrivial"] = True
                    s = (s & ~clr) | hw
                elif act == "RW1S":
                    st_ = w_data if w_stb else 0
                    if st_ & hw:
                        mon.count("set_clear_ties")
                        st["nontrivial"] = True
                    s = (s & ~hw) | st_
                st["storage"] = s & mask
                if c in resets:
                    st["storage"] = init_bits        # a warm reset returns the field to its initial value
                    mon.count("warm_resets")
            await ctx.tick()

    simulate(Top({"dut": dut}), bench, mon)
    if act in ("R", "W") and st["compared"] >= 50:
        st["nontrivial"] = True
    # keep REQUIRED counters present only where they make sense: count zero-width as evaluated
    mon.count("cycles", mon.cycle + 1)
    mon.bin("action_shape", (act, desc[0], w))
    summary = {"action": act, "shape": case["shape"], "init_bits": init_bits, "stim": case["stim_seed"]}
    return mon.result(nontrivial=st["nontrivial"], summary=summary)


def run_reserved(case, rng):
    """Register [lo: RW probe, res: reserved, hi: RW probe]: reserved bits read zero, writes through
    the register never disturb anything but the two RW storages' own ranges."""
    wl, wr, wh = case["widths"]
    res_cls = getattr(action, case["res"])
    reg = csr.Register({"lo": csr.Field(action.RW, wl), "res": csr.Field(res_cls, wr),
                        "hi": csr.Field(action.RW, wh)}, access="rw")
    el = reg.element
    W = wl + wr + wh
    mon = Mon()
    st = {"lo": 0, "hi": 0, "n": 0}

    async def bench(ctx):
        for c in range(case["cycles"]):
            mon.cycle = c
            w_stb = int(rng.random() < 0.5)
            w_data = biased_bits(rng, W)
            ctx.set(el.w_stb, w_stb)
            ctx.set(el.r_stb, int(rng.random() < 0.5))
            if W:
                ctx.set(el.w_data, w_data)
            rd = ctx.get(el.r_data) if W else 0
            mon.log({"c": c, "w_stb": w_stb, "w_data": w_data, "r_data": rd})
            exp = st["lo"] | (st["hi"] << (wl + wr))
            mon.eq("reserved_zero", rd, exp,
                   f"register read with reserved field {case['res']} at bits [{wl},{wl + wr})")
            mon.eq("data_eq_port", ctx.get(reg.f.lo.data) if wl else 0, st["lo"], "lo.data")
            mon.eq("data_eq_port", ctx.get(reg.f.hi.data) if wh else 0, st["hi"], "hi.data")
            st["n"] += 1
            if w_stb:
                st["lo"] = w_data & ((1 << wl) - 1)
                st["hi"] = (w_data >> (wl + wr)) & ((1 << wh) - 1)
            await ctx.tick()

    simulate(Top({"reg": reg}), bench, mon)
    mon.count("cycles", mon.cycle + 1)
    mon.bin("action_shape", (case["res"], wr))
    summary = {"action": case["res"], "widths": case["widths"], "stim": case["stim_seed"]}
    return mon.result(nontrivial=st["n"] >= 50, summary=summary)


def evidence_extra(results, counters, bins, tier):
    complete = {}
    for name, items in bins.items():
        if name.startswith("state:"):
            _, act, ws = name.split(":")
            w = int(ws[1:])
            total = (1 << w) * 2 * (1 << w) * (1 << w)
            if act == "RW":
                # hw input is not an input of RW: it is still drawn, so count tuples modulo it
                total = (1 << w) * 2 * (1 << w) * (1 << w)
            complete[name] = {"hit": len(items), "total": total, "complete": len(items) >= total}
    return {"input_state_tuples": complete}


LEVEL_TEXT = ("Online monitor comparing every output of the real field actions with a bit-level next-state model on "
              "every simulated cycle, all inputs random per cycle; (storage, strobe, data, set/clear) tuple coverage "
              "is measured and reported per action for widths <= 3.")
LEVEL_NOTE = "Trusted: Amaranth simulator, CPython, the next-state model (set wins ties; untouched bits keep)."
TECHNIQUE = "runtime monitoring: per-cycle reference-model trace checker over randomized simulation"
DESIGN_REF = "DESIGN.md section 4, C12"
