# amaranth: UnusedElaboratable=no
"""C01 - the memory map tells the truth about the hardware, end to end.

Each case generates a bus hierarchy from the toolkit's own parts, elaborates it as one design and
drives every resource (and unassigned addresses) through the ROOT bus only. The oracle is the root's
own memory map: all_resources() says which leaf lives where, decode_address() says which addresses are
unassigned. Every leaf is watched on every cycle of the whole run: a strobe, bus cycle or content
change anywhere it should not be is a violation.

  Wishbone root:  wishbone.Decoder over WishboneSRAM, WishboneCSRBridge (over a CSR subtree), nested
                  wishbone.Decoder (dense windows between buses of equal granularity)
  CSR root/sub:   csr.Decoder over nested csr.Decoder, csr.Multiplexer over probe registers,
                  csr.Bridge over a csr.Builder map of probe registers (Cluster/Index scopes),
                  csr.EventMonitor, gpio.Peripheral
"""
import random

from vmon import env  # noqa: F401
from vmon.simkit import Top, Mon, simulate, bits, omit
from vmon.work.mux import Probe
from vmon.props.c11 import ProbeAction
from vmon.props.c16 import min_aw as gpio_min_aw
from vmon.models.csrmux import f3_unsatisfiable

from amaranth import Signal, Cat, Value
from amaranth_soc import csr, event, gpio, wishbone
from amaranth_soc.csr.wishbone import WishboneCSRBridge
from amaranth_soc.csr.event import EventMonitor
from amaranth_soc.memory import MemoryMap
from amaranth_soc.wishbone.sram import WishboneSRAM

ID = "C01"
RULE = ("cases = generated hierarchy (Wishbone or CSR root; depth <= 4; windows named/anonymous, implicit / align_to / "
        "explicit multiples of the window size; decoder alignment varies) in which every resource reported by "
        "root.memory_map.all_resources() is read and written whole through the root (Wishbone: single-granule transfers, "
        "full multi-granule transfers and partial select masks) and unassigned addresses are probed (all of them when "
        "the root space <= 4096, else boundaries +-1 and 256 random holes), with every leaf watched on every cycle; "
        "distinct = distinct hierarchy; non-trivial = hierarchy with >= 2 levels of windows and >= 2 leaf kinds")
ASSUMPTIONS = ["Amaranth simulator is faithful", "root.memory_map (all_resources/decode_address) is the oracle under test "
               "against the hardware; 'never acknowledged' = not within 2*ratio+8 cycles, asserted only for addresses no "
               "Wishbone window claims (a WishboneCSRBridge acknowledges holes, as C10 requires)",
               "padding zones of windows padded by the decoder alignment: only absence of side effects is asserted"]
REQUIRED = ["target_r_stb_exactly_once", "target_w_stb_exactly_once", "read_data_slice", "write_data_concat",
            "no_foreign_activity", "unmapped_no_effect", "unmapped_reads_zero_or_unacked", "leaf_cycles_watched"]


def n_cases(tier):
    return 128 if tier == "quick" else 1600


def gen_case(rng, tier, idx):
    return {"root": "wb" if idx % 4 != 3 else "csr",
            "max_space": (13 if rng.random() < 0.25 else 10) if tier == "quick" else rng.choice([10, 13, 13, 15]),
            "hole_budget": 96 if tier == "quick" else 256,
            # back-to-back root traffic: the next access is presented in the cycle right after the previous one
            # completed (Wishbone: CYC and STB stay asserted across the acknowledge; CSR: no idle cycle between chunks)
            "tight": idx % 2 == 1}


class Build:
    """Random hierarchy builder. Collects every component for the Top module and the map -> kind table."""
    def __init__(self, rng):
        self.rng = rng
        self.mods = []
        self.n = 0
        self.kinds = set()
        self.claims = {}          # id(memory map) -> 'wbdec' | 'bridge' | 'sram' | 'csr'
        self.srams = []
        self.depth = 0
        self.src_inputs = []
        self.pin_inputs = []
        self.probe_inputs = []    # (signal, width) driven randomly by the testbench

    def uid(self, p):
        self.n += 1
        return f"{p}{self.n}"

    def add_mod(self, m):
        self.mods.append((self.uid("u"), m))

    # ---- CSR side ------------------------------------------------------------------------------
    def csr_leaf(self, aw, dw):
        """A CSR target with at most `aw` address bits. Returns its bus or None."""
        rng = self.rng
        kind = rng.choice(["mux", "mux", "bridge", "bridge", "evmon", "gpio"])
        if kind == "mux":
            k = aw if rng.random() < 0.4 else rng.randint(1, aw)
            mm = MemoryMap(addr_width=k, data_width=dw, alignment=rng.choice([0, 0, 1]) if k > 2 else 0)
            ok = 0
            for _ in range(rng.randint(1, 4)):
                w = rng.choice([1, dw, dw + 1, 2 * dw, 3 * dw - 1, rng.randint(0, 3 * dw)])
                p = Probe(w, rng.choice(["r", "w", "rw", "rw"]))
                kw = {}
                if rng.random() < 0.35:
                    # anywhere in the leaf's address space, not only packed from address 0
                    kw["addr"] = rng.randrange(1 << k) // (1 << mm.alignment) * (1 << mm.alignment)
                try:
                    mm.add_resource(p, name=(self.uid("reg"),), size=max(1, (w + dw - 1) // dw),
                                    alignment=rng.choice([None, None, 0, 1]), **kw)
                    ok += 1
                    if p.element.access.readable() and w:
                        self.probe_inputs.append((p.element.r_data, w))
                except ValueError:
                    pass
            if not ok:
                return None
            overlaps = rng.choice([None, None, 1, 2])
            res = list(mm.resources())
            for acc in ("readable", "writable"):
                ranges = [(s_, e_) for p_, _n, (s_, e_) in res if getattr(p_.element.access, acc)()]
                if f3_unsatisfiable(ranges, overlaps):
                    overlaps = None      # the multiplexer refuses a sharing limit no shadow size can satisfy (F3, fixed)
            mux = csr.Multiplexer(mm, shadow_overlaps=overlaps)
            if overlaps is None and rng.random() < 0.3:
                # a register added after the Multiplexer object exists (its map is not frozen yet)
                w = rng.randint(1, 2 * dw)
                p = Probe(w, rng.choice(["r", "w", "rw"]))
                try:
                    mm.add_resource(p, name=(self.uid("late"),), size=max(1, (w + dw - 1) // dw))
                    if p.element.access.readable():
                        self.probe_inputs.append((p.element.r_data, w))
                except ValueError:
                    pass
            self.add_mod(mux)
            self.kinds.add("multiplexer")
            self.claims[id(mm)] = "csr"
            return mux.bus
        if kind == "bridge":
            k = aw if rng.random() < 0.4 else rng.randint(1, aw)
            b = csr.Builder(**omit(rng, "csr.Builder", addr_width=k, data_width=dw, granularity=8 if dw % 8 == 0 else dw))
            regs = []

            def mkreg():
                w = rng.choice([1, dw, dw + 3, 2 * dw, rng.randint(1, 3 * dw)])
                acc = rng.choice(["r", "w", "rw", "rw"])
                reg = csr.Register({"f": csr.Field(ProbeAction, w, acc)}, access=acc)
                regs.append((reg, w, acc))
                return reg

            for _ in range(rng.randint(1, 3)):
                x = rng.random()
                if x < 0.3:
                    with b.Cluster(self.uid("blk")):
                        b.add(self.uid("r"), mkreg())
                elif x < 0.55:
                    with b.Cluster(self.uid("arr")):
                        for i in range(rng.randint(1, 2)):
                            with b.Index(i):
                                b.add("el", mkreg())
                else:
                    ratio_ = dw // (8 if dw % 8 == 0 else dw)
                    off = None
                    if rng.random() < 0.35:
                        off = rng.randrange(1 << k) // 4 * 4 * ratio_        # explicit offset somewhere in the space
                    b.add(self.uid("r"), mkreg(), offset=off)
            try:
                mm = b.as_memory_map()
            except ValueError:
                return None
            br = csr.Bridge(mm)
            self.add_mod(br)
            for reg, w, acc in regs:
                if "r" in acc:
                    self.probe_inputs.append((reg.f.f.port.r_data, w))
            self.kinds.add("register-bridge")
            self.claims[id(mm)] = "csr"
            return br.bus
        if kind == "evmon":
            n = rng.choice([1, 3, 9, 17])
            al = rng.choice([0, 0, 1])
            need = 1 + max(((n + dw - 1) // dw - 1).bit_length(), al)
            if need > aw:
                return None
            em = event.EventMap()
            for i in range(n):
                s = event.Source(trigger=rng.choice(["level", "rise", "fall"]), path=(self.uid("src"),))
                em.add(s)
                self.src_inputs.append(s.i)
            ev = EventMonitor(em, **omit(rng, "csr.EventMonitor", data_width=dw, alignment=al))
            self.add_mod(ev)
            self.kinds.add("event-monitor")
            self.claims[id(ev.bus.memory_map)] = "csr"
            return ev.bus
        pins = rng.choice([1, 3, 8, 9])
        need = gpio_min_aw(pins, dw)
        if need > aw:
            return None
        g = gpio.Peripheral(**omit(rng, "gpio.Peripheral", pin_count=pins, addr_width=rng.randint(need, aw), data_width=dw,
                                   input_stages=rng.choice([0, 2])))
        self.add_mod(g)
        for p in g.pins:
            self.pin_inputs.append(p.i)
        self.kinds.add("gpio")
        self.claims[id(g.bus.memory_map)] = "csr"
        return g.bus

    def csr_tree(self, aw, dw, depth, lvl):
        """csr.Decoder with `aw` address bits over a random mix of leaves and nested decoders."""
        rng = self.rng
        self.depth = max(self.depth, lvl)
        dec = csr.Decoder(**omit(rng, "csr.Decoder", addr_width=aw, data_width=dw,
                                 alignment=rng.choice([0, 0, 0, 1, 2]) if aw > 3 else 0))
        self.add_mod(dec)
        self.claims[id(dec.bus.memory_map)] = "csr"
        for _ in range(rng.randint(1, 4)):
            if aw < 2:
                break
            k = rng.randint(1, aw - 1)
            if depth > 1 and k >= 3 and rng.random() < 0.35:
                sub = self.csr_tree(k, dw, depth - 1, lvl + 1)
            else:
                sub = self.csr_leaf(k, dw)
            if sub is None:
                continue
            if rng.random() < 0.25:
                try:
                    dec.align_to(rng.randint(0, aw - 1))
                except ValueError:
                    pass
            kw = {}
            if rng.random() < 0.3:
                size = 1 << sub.addr_width
                kw["addr"] = rng.randrange(1 << aw) // size * size
            try:
                dec.add(sub, name=None if rng.random() < 0.5 else self.uid("w"), **kw)
            except ValueError:
                pass          # does not fit: that subtree stays unreachable (and must stay silent)
            if rng.random() < 0.2:
                mm_ = dec.bus.memory_map     # read-only queries on a partly built decoder
                list(mm_.window_patterns()), list(mm_.all_resources())
            if rng.random() < 0.1:
                from amaranth.hdl import Fragment
                Fragment.get(dec, None)      # bring-up elaboration of the partly built decoder
            if rng.random() < 0.1:
                try:
                    dec.add(sub)             # duplicate add: refused, nothing may change
                except ValueError:
                    pass
        return dec.bus

    # ---- Wishbone side -------------------------------------------------------------------------
    def wb_tree(self, aw, wdw, cdw, depth, lvl):
        rng = self.rng
        self.depth = max(self.depth, lvl)
        gbits = (wdw // cdw).bit_length() - 1
        dec = wishbone.Decoder(addr_width=aw, data_width=wdw, granularity=cdw,
                               alignment=rng.choice([0, 0, 0, 2, 4]) if aw + gbits > 5 else 0)
        self.add_mod(dec)
        self.claims[id(dec.bus.memory_map)] = "wbdec"
        map_aw = aw + gbits
        for _ in range(rng.randint(1, 4)):
            x = rng.random()
            sub = None
            if x < 0.35:
                j = rng.randint(gbits, min(map_aw - 1, gbits + 5)) if map_aw - 1 >= gbits else None
                if j is None or j < 1:
                    continue
                size = 1 << j
                depth_rows = size * cdw // wdw
                s = WishboneSRAM(size=size, data_width=wdw, granularity=cdw, writable=rng.random() < 0.8,
                                 init=[rng.getrandbits(wdw) for _ in range(depth_rows)])
                self.add_mod(s)
                self.srams.append(s)
                self.kinds.add("sram")
                self.claims[id(s.wb_bus.memory_map)] = "sram"
                sub = s.wb_bus
            elif x < 0.8 or depth <= 1:
                caw = rng.randint(max(1, gbits), map_aw - 1) if map_aw - 1 >= max(1, gbits) else None
                if caw is None:
                    continue
                csr_bus = self.csr_tree(caw, cdw, max(1, depth - 1), lvl + 1) if (caw >= 3 and rng.random() < 0.7) \
                    else self.csr_leaf(caw, cdw)
                if csr_bus is None or csr_bus.addr_width < max(1, gbits):
                    continue
                br = WishboneCSRBridge(csr_bus, data_width=wdw, name=None if rng.random() < 0.5 else self.uid("csr"))
                self.add_mod(br)
                self.kinds.add("wb-csr-bridge")
                self.claims[id(br.wb_bus.memory_map)] = "bridge"
                sub = br.wb_bus
            else:
                k = rng.randint(1, aw - 1) if aw > 1 else None
                if k is None:
                    continue
                sub = self.wb_tree(k, wdw, cdw, depth - 1, lvl + 1)
            if rng.random() < 0.25:
                try:
                    dec.align_to(rng.randint(0, map_aw - 1))
                except ValueError:
                    pass
            kw = {}
            if rng.random() < 0.3:
                size = 1 << sub.memory_map.addr_width
                kw["addr"] = rng.randrange(1 << map_aw) // size * size
            try:
                dec.add(sub, name=None if rng.random() < 0.5 else self.uid("w"), **kw)
                if rng.random() < 0.1:
                    try:
                        dec.add(sub)         # duplicate add: refused, nothing may change
                    except ValueError:
                        pass
            except ValueError:
                pass
            if rng.random() < 0.1:
                from amaranth.hdl import Fragment
                Fragment.get(dec, None)      # bring-up elaboration of the partly built decoder
        return dec.bus


def claimed_by_wishbone_target(root_map, claims, a):
    """'bridge'/'sram' if address a (in root map units) lies in the true span of a window of a Wishbone
    target that acknowledges every transfer; 'padding' if it lies in the padding of some window on the
    way; None if no Wishbone window claims it."""
    m = root_map
    while True:
        hit = None
        for w, _n, (s, e, ratio) in m.windows():
            if s <= a < e:
                true_end = s + (1 << w.addr_width) // ratio
                if a >= true_end:
                    return "padding"
                hit = (w, s, ratio)
                break
        if hit is None:
            return None
        w, s, ratio = hit
        kind = claims.get(id(w))
        if kind in ("bridge", "sram"):
            return kind
        if kind != "wbdec":
            return None
        a = (a - s) * ratio
        m = w


def run_case(case):
    rng = random.Random(case["stim_seed"])
    B = Build(rng)
    if case["root"] == "wb":
        cdw = rng.choice([8, 8, 16, 32])
        wdw = rng.choice([w for w in (8, 16, 32, 64) if w >= cdw])
        gbits = (wdw // cdw).bit_length() - 1
        aw = rng.randint(max(2, 5 - gbits), case["max_space"] - gbits)
        root = B.wb_tree(aw, wdw, cdw, rng.randint(1, 3), 1)
        ratio = wdw // cdw
    else:
        cdw = rng.choice([8, 8, 16, 32])
        wdw, gbits, ratio = cdw, 0, 1
        aw = rng.randint(3, case["max_space"])
        root = B.csr_tree(aw, cdw, rng.randint(1, 3), 1)
    rmap = root.memory_map
    infos = list(rmap.all_resources())
    mon = Mon(trace_len=16)
    space = 1 << rmap.addr_width

    # ---- leaves
    leaves = []          # dict(kind 'csr'|'sram', obj, el / sram)
    leaf_of = {}
    for inf in infos:
        res = inf.resource
        if hasattr(res, "element"):
            leaf_of[id(res)] = len(leaves)
            leaves.append({"kind": "csr", "res": res, "el": res.element, "info": inf})
    sram_of_mem = {}
    for s in B.srams:
        (mem, _n, _r), = list(s.wb_bus.memory_map.resources())
        sram_of_mem[id(mem)] = s
    # leaves that exist in the design but are NOT reachable from the root must stay silent as well
    reachable = {id(i.resource) for i in infos}
    silent_extra = []
    for _name, m in B.mods:
        mm = None
        if isinstance(m, (csr.Multiplexer, csr.Bridge, EventMonitor, gpio.Peripheral)):
            mm = m.bus.memory_map
        if mm is not None:
            for r, _n, _rg in mm.resources():
                if id(r) not in reachable and hasattr(r, "element"):
                    silent_extra.append(r.element)
    strobe_sigs = []     # (leaf index or -1, 'r'|'w'|'sram', signal)
    for i, lf in enumerate(leaves):
        el = lf["el"]
        if el.access.readable():
            strobe_sigs.append((i, "r", el.r_stb))
        if el.access.writable():
            strobe_sigs.append((i, "w", el.w_stb))
    for el in silent_extra:
        if el.access.readable():
            strobe_sigs.append((-1, "r", el.r_stb))
        if el.access.writable():
            strobe_sigs.append((-1, "w", el.w_stb))
    sram_req = []
    for k, s in enumerate(B.srams):
        sram_req.append(Signal(name=f"sram_req{k}"))
        strobe_sigs.append((k, "sram", sram_req[-1]))
    packed = Signal(max(1, len(strobe_sigs)), name="packed_strobes")

    def extra(m):
        for k, s in enumerate(B.srams):
            m.d.comb += sram_req[k].eq(s.wb_bus.cyc & s.wb_bus.stb)
        if strobe_sigs:
            m.d.comb += packed.eq(Cat(sig for _i, _k, sig in strobe_sigs))

    # SRAM shadow model: contents[k][row]
    sram_model = []
    for s in B.srams:
        (mem, _n, _r), = list(s.wb_bus.memory_map.resources())
        sram_model.append({"sram": s, "mem": mem, "rows": list(mem.data.init) if hasattr(mem.data, "init") else None})
    st = {"events": [], "cycles": 0, "sram_busy": set(), "mapped_probed": 0, "unmapped_probed": 0, "bridge_holes": 0}
    summary = {"root": case["root"], "root_addr_bits": rmap.addr_width, "wdw": wdw, "cdw": cdw,
               "leaf_kinds": sorted(B.kinds), "depth": B.depth, "resources": len(infos), "srams": len(B.srams),
               "unreachable_leaves": len(silent_extra),
               "sample_resources": [(str(tuple(map(tuple, i.path))), i.start, i.end, i.width) for i in infos[:10]],
               "stim": case["stim_seed"]}
    if not infos:
        return mon.result(skipped="generated hierarchy has no reachable resource", summary=summary)

    tight = bool(case.get("tight"))

    async def bench(ctx):
        # initial SRAM images straight from the simulator (robust against init handling)
        for sm in sram_model:
            depth = sm["sram"].size * cdw // wdw
            sm["rows"] = [ctx.get(sm["mem"].data[r]) for r in range(depth)]

        async def cycle():
            """Randomise background inputs, watch every leaf, advance one clock."""
            for sig, w in rng.sample(B.probe_inputs, min(3, len(B.probe_inputs))):
                ctx.set(Value.cast(sig), bits(rng, w))
            for sig in rng.sample(B.src_inputs, min(2, len(B.src_inputs))):
                ctx.set(sig, rng.getrandbits(1))
            for sig in rng.sample(B.pin_inputs, min(2, len(B.pin_inputs))):
                ctx.set(sig, rng.getrandbits(1))
            v = ctx.get(packed) if strobe_sigs else 0
            st["cycles"] += 1
            mon.cycle = st["cycles"]
            if v:
                for b, (i, k, sig) in enumerate(strobe_sigs):
                    if (v >> b) & 1:
                        ev = {"c": st["cycles"], "leaf": i, "kind": k}
                        if k == "w" and i >= 0:
                            el = leaves[i]["el"]
                            ev["w_data"] = ctx.get(el.w_data) if el.width else 0
                        if k == "r" and i >= 0:
                            el = leaves[i]["el"]
                            ev["r_data"] = ctx.get(el.r_data) if el.width else 0
                        st["events"].append(ev)
                        mon.log(ev)
            await ctx.tick()

        def take_events():
            ev, st["events"] = st["events"], []
            return ev

        # -------- root bus drivers
        if case["root"] == "csr":
            async def csr_access(a, r, w, data=0):
                ctx.set(root.addr, a)
                ctx.set(root.r_stb, r)
                ctx.set(root.w_stb, w)
                ctx.set(root.w_data, data)
                await cycle()
                ctx.set(root.r_stb, 0)
                ctx.set(root.w_stb, 0)
                got = ctx.get(root.r_data)
                if tight:
                    st["unsettled"] = True
                    mon.count("back_to_back_accesses")
                else:
                    await cycle()
                return got

            async def settle():
                # a register's write strobe follows the last chunk write by one cycle: let it happen before the
                # events of this access are collected
                if st.pop("unsettled", False):
                    await cycle()

            async def read_granule(a):
                return await csr_access(a, 1, 0), True

            async def write_granule(a, v):
                await csr_access(a, 0, 1, v)
                return True
        else:
            T = 2 * ratio + 8

            async def wb_transfer(adr, sel, we, dat_w=0):
                ctx.set(root.adr, adr)
                ctx.set(root.sel, sel)
                ctx.set(root.we, we)
                ctx.set(root.dat_w, dat_w)
                ctx.set(root.cyc, 1)
                ctx.set(root.stb, 1)
                acked, data = False, 0
                for _ in range(T):
                    if ctx.get(root.ack):
                        acked, data = True, ctx.get(root.dat_r)
                        await cycle()
                        break
                    await cycle()
                if tight and acked:
                    # the next transfer follows in the very next cycle, CYC and STB still asserted (everything a
                    # transfer causes has happened by the time it is acknowledged)
                    mon.count("back_to_back_accesses")
                    return acked, data
                ctx.set(root.cyc, 0)
                ctx.set(root.stb, 0)
                await cycle()
                await cycle()
                return acked, data

            async def settle():
                pass

            async def read_granule(a):
                acked, data = await wb_transfer(a >> gbits, 1 << (a & (ratio - 1)), 0, bits(rng, wdw))
                return (data >> ((a & (ratio - 1)) * cdw)) & ((1 << cdw) - 1), acked

            async def write_granule(a, v):
                acked, _ = await wb_transfer(a >> gbits, 1 << (a & (ratio - 1)), 1, v << ((a & (ratio - 1)) * cdw))
                return acked

        def foreign(events, target):
            return [e for e in events if not (e["kind"] in ("r", "w") and e["leaf"] == target)]

        def check_srams(ctx_, why, expect_busy=()):
            for k, sm in enumerate(sram_model):
                for r, exp in enumerate(sm["rows"]):
                    got = ctx_.get(sm["mem"].data[r])
                    if got != exp:
                        mon.counters["sram_contents"] += 1
                        mon.fail("sram_contents", f"{why}: SRAM {k} row {r} holds {got:#x}, expected {exp:#x}",
                                 sram=k, row=r)
            mon.count("sram_contents", sum(len(sm["rows"]) for sm in sram_model))

        # -------- every resource, whole, through the root
        order = list(range(len(infos)))
        rng.shuffle(order)
        for oi in order:
            inf = infos[oi]
            s, e = inf.start, inf.end
            path = str(tuple(map(tuple, inf.path)))
            st["mapped_probed"] += e - s
            if id(inf.resource) in leaf_of:
                li = leaf_of[id(inf.resource)]
                el = leaves[li]["el"]
                width = el.width
                wmask = (1 << width) - 1
                modes = ["single"] if case["root"] == "csr" else ["single", "multi"]
                for mode in modes:
                    # ---- whole-register read
                    take_events()
                    chunks = []
                    if mode == "single":
                        for a in range(s, e):
                            v, acked = await read_granule(a)
                            chunks.append(v)
                            mon.ok("mapped_access_acknowledged", acked, f"read of {path} at {a} was not acknowledged")
                    else:
                        chunks = [None] * (e - s)
                        for word in range(s >> gbits, ((e - 1) >> gbits) + 1):
                            lanes = [l for l in range(ratio) if s <= (word << gbits) + l < e]
                            sel = sum(1 << l for l in lanes)
                            acked, data = await wb_transfer(word, sel, 0, bits(rng, wdw))
                            mon.ok("mapped_access_acknowledged", acked, f"read of {path} word {word} was not acknowledged")
                            for l in lanes:
                                chunks[(word << gbits) + l - s] = (data >> (l * cdw)) & ((1 << cdw) - 1)
                    await settle()
                    evs = take_events()
                    mine = [x for x in evs if x["leaf"] == li and x["kind"] == "r"]
                    mon.ok("no_foreign_activity", not foreign(evs, li),
                           lambda: f"whole read of {path} [{s},{e}) disturbed other leaves: {foreign(evs, li)[:4]}")
                    if el.access.readable():
                        mon.ok("target_r_stb_exactly_once", len(mine) == 1,
                               f"whole read of {path} [{s},{e}) ({mode}): its r_stb pulsed {len(mine)} times")
                        cap = mine[0]["r_data"] & wmask
                        for k, v in enumerate(chunks):
                            mon.eq("read_data_slice", v, (cap >> (k * cdw)) & ((1 << cdw) - 1),
                                   f"chunk {k} of {path} read at root address {s + k} ({mode})")
                    else:
                        mon.ok("target_r_stb_exactly_once", len(mine) == 0, f"write-only {path} saw a read strobe")
                        mon.ok("read_data_slice", all(v == 0 for v in chunks), f"write-only {path} returned data {chunks}")
                    # ---- whole-register write
                    take_events()
                    vals = [bits(rng, cdw) for _ in range(e - s)]
                    if mode == "single":
                        for k, a in enumerate(range(s, e)):
                            acked = await write_granule(a, vals[k])
                            mon.ok("mapped_access_acknowledged", acked, f"write of {path} at {a} was not acknowledged")
                    else:
                        for word in range(s >> gbits, ((e - 1) >> gbits) + 1):
                            lanes = [l for l in range(ratio) if s <= (word << gbits) + l < e]
                            sel = sum(1 << l for l in lanes)
                            data = sum(vals[(word << gbits) + l - s] << (l * cdw) for l in lanes)
                            acked, _ = await wb_transfer(word, sel, 1, data)
                            mon.ok("mapped_access_acknowledged", acked, f"write of {path} word {word} was not acknowledged")
                    await settle()
                    evs = take_events()
                    mine = [x for x in evs if x["leaf"] == li and x["kind"] == "w"]
                    mon.ok("no_foreign_activity", not foreign(evs, li),
                           lambda: f"whole write of {path} [{s},{e}) disturbed other leaves: {foreign(evs, li)[:4]}")
                    if el.access.writable():
                        mon.ok("target_w_stb_exactly_once", len(mine) == 1,
                               f"whole write of {path} [{s},{e}) ({mode}): its w_stb pulsed {len(mine)} times")
                        exp = sum(v << (k * cdw) for k, v in enumerate(vals)) & wmask
                        mon.eq("write_data_concat", mine[0]["w_data"] & wmask, exp, f"w_data of {path} ({mode})")
                    else:
                        mon.ok("target_w_stb_exactly_once", len(mine) == 0, f"read-only {path} saw a write strobe")
                # ---- partial select masks inside one word (Wishbone root): strobe iff first / last address selected
                if case["root"] == "wb":      # (with a single lane: a cycle with SEL low addresses nothing)
                    word = rng.randint(s >> gbits, (e - 1) >> gbits)
                    lanes = [l for l in range(ratio) if s <= (word << gbits) + l < e]
                    sub = [l for l in lanes if rng.random() < 0.5]
                    sel = sum(1 << l for l in sub)
                    we = rng.getrandbits(1)
                    take_events()
                    await wb_transfer(word, sel, we, bits(rng, wdw))
                    await settle()
                    evs = take_events()
                    first_sel = any((word << gbits) + l == s for l in sub)
                    last_sel = any((word << gbits) + l == e - 1 for l in sub)
                    exp_n = int((not we and first_sel and el.access.readable()) or (we and last_sel and el.access.writable()))
                    mine = [x for x in evs if x["leaf"] == li and x["kind"] == ("w" if we else "r")]
                    mon.ok("partial_select_strobe_iff", len(mine) == exp_n and not foreign(evs, li),
                           lambda: f"{path}: transfer word {word} sel {sel:#b} we={we}: {len(mine)} strobes, expected {exp_n}; "
                                   f"foreign {foreign(evs, li)[:3]}")
                check_srams(ctx, f"after accessing {path}")
            elif id(inf.resource) in sram_of_mem:
                sram = sram_of_mem[id(inf.resource)]
                k = B.srams.index(sram)
                sm = sram_model[k]
                addrs = list(range(s, e)) if e - s <= 24 else sorted(set([s, s + 1, e - 1, e - 2] +
                                                                     [rng.randrange(s, e) for _ in range(16)]))
                for a in addrs:
                    row, lane = (a - s) >> gbits, (a - s) & (ratio - 1)
                    take_events()
                    v, acked = await read_granule(a)
                    mon.ok("mapped_access_acknowledged", acked, f"SRAM read at {a} not acknowledged")
                    mon.eq("sram_read_word", v, (sm["rows"][row] >> (lane * cdw)) & ((1 << cdw) - 1),
                           f"SRAM {path} root address {a} -> row {row} lane {lane}")
                    check_srams(ctx, f"after SRAM read at {a}")
                    nv = bits(rng, cdw)
                    acked = await write_granule(a, nv)
                    mon.ok("mapped_access_acknowledged", acked, f"SRAM write at {a} not acknowledged")
                    if sram.writable:
                        m_ = ((1 << cdw) - 1) << (lane * cdw)
                        sm["rows"][row] = (sm["rows"][row] & ~m_) | (nv << (lane * cdw))
                    await settle()
                    evs = take_events()
                    bad = [x for x in evs if not (x["kind"] == "sram" and x["leaf"] == k)]
                    mon.ok("no_foreign_activity", not bad, lambda: f"SRAM access at {a} disturbed other leaves: {bad[:4]}")
                    mon.ok("sram_cycle_seen", any(x["kind"] == "sram" and x["leaf"] == k for x in evs),
                           f"SRAM {path} saw no bus cycle for root address {a}")
                    check_srams(ctx, f"after SRAM access at {a}")
        # -------- unassigned addresses
        holes = [a for a in range(space) if rmap.decode_address(a) is None] if space <= 4096 else None
        if holes is None:
            cand = set()
            for inf in infos:
                cand.update([inf.start - 1, inf.end, inf.end + 1])
            for w, _n, (ws, we_, _r) in rmap.windows():
                cand.update([ws - 1, ws, we_ - 1, we_])
            cand.update(rng.randrange(space) for _ in range(case["hole_budget"]))
            holes = sorted(a for a in cand if 0 <= a < space and rmap.decode_address(a) is None)
            exhaustive_holes = False
        else:
            exhaustive_holes = len(holes) <= case["hole_budget"] * 4
            if not exhaustive_holes:
                edge = set()
                for inf in infos:
                    edge.update([inf.start - 1, inf.end, inf.end + 1])
                keep = [a for a in holes if a in edge]
                rest = [a for a in holes if a not in edge]
                holes = sorted(set(keep + rng.sample(rest, min(len(rest), case["hole_budget"] * 2))))
        for a in holes:
            st["unmapped_probed"] += 1
            take_events()
            v, acked = await read_granule(a)
            wacked = await write_granule(a, bits(rng, cdw))
            await settle()
            evs = take_events()
            claim = claimed_by_wishbone_target(rmap, B.claims, a) if case["root"] == "wb" else None
            if case["root"] == "wb" and claim in ("sram",):
                continue        # cannot happen: an SRAM window has no holes
            allowed = [x for x in evs if x["kind"] == "sram"] if claim == "padding" else []
            bad = [x for x in evs if x not in allowed]
            mon.ok("unmapped_no_effect", not bad, lambda: f"unassigned root address {a} caused leaf activity: {bad[:4]}")
            if case["root"] == "csr":
                mon.eq("unmapped_reads_zero_or_unacked", v, 0, f"CSR read of unassigned address {a}")
            elif claim is None:
                mon.ok("unmapped_reads_zero_or_unacked", not acked and not wacked,
                       f"Wishbone access to unassigned, unclaimed address {a} was acknowledged (read={acked}, write={wacked})")
            elif claim == "bridge":
                st["bridge_holes"] += 1
                mon.ok("unmapped_reads_zero_or_unacked", (not acked) or v == 0,
                       f"hole at {a} behind a Wishbone-CSR bridge returned {v:#x}")
            else:
                mon.count("padding_zone_only_side_effects_checked")
        check_srams(ctx, "end of run")
        st["exhaustive"] = bool(space <= 4096 and exhaustive_holes)

    simulate(Top(B.mods, extra=extra), bench, mon)
    mon.count("leaf_cycles_watched", st["cycles"] * max(1, len(strobe_sigs)))
    mon.count("cycles", st["cycles"])
    mon.count("mapped_addresses_probed", st["mapped_probed"])
    mon.count("unmapped_addresses_probed", st["unmapped_probed"])
    mon.count("acknowledged_bridge_holes", st["bridge_holes"])
    mon.count("hierarchies_exhaustive_over_holes", int(st.get("exhaustive", False)))
    for k in B.kinds:
        mon.bin("leaf_kinds", k)
    mon.bin("roots", case["root"])
    mon.bin("depth", B.depth)
    summary["exhaustive_over_root_addresses"] = st.get("exhaustive", False)
    return mon.result(nontrivial=B.depth >= 2 and len(B.kinds) >= 2, summary=summary)


LEVEL_TEXT = ("End-to-end runtime monitor: generated hierarchies of the real decoders, bridges, multiplexers, SRAMs and "
              "peripherals are simulated as one design and exercised only through the root bus; the root memory map is the "
              "oracle, and every leaf register strobe, SRAM bus cycle and SRAM word is watched on every cycle of the run.")
LEVEL_NOTE = "Trusted: Amaranth simulator, CPython. Hierarchies are sampled; within one hierarchy every resource address is driven and unassigned addresses are covered as stated per hierarchy in the evidence."
TECHNIQUE = "runtime monitoring: end-to-end online trace checker with the memory map as oracle, all leaves watched every cycle"
DESIGN_REF = "DESIGN.md section 4, C01"
