# amaranth: UnusedElaboratable=no
"""C17 - csr.Builder lays registers out deterministically at the promised offsets.

History monitor: random sequences of add / Cluster / Index / freeze / as_memory_map (valid and
invalid arguments, exceptions thrown inside scopes) on a live csr.Builder, judged call by call
against an independent layout model; the resulting memory map (or its refusal) is compared with
the model's layout.
"""
import random

from vmon import env  # noqa: F401
from vmon.simkit import Mon, spell_int, spell_str
from vmon.models.memmap import names_conflict

from amaranth_soc import csr
from amaranth_soc.csr import action

ID = "C17"
RULE = ("cases = builder geometry (addr width 1-12, data width 8-64, granularity dividing it) x random history of 1-25 "
        "add calls (register widths 0..4*data_width+1, explicit offsets incl. non-multiples/negative/overlapping, names "
        "incl. invalid and colliding, nested Cluster/Index scopes incl. invalid ones and exceptions raised inside), "
        "freeze, as_memory_map (twice); distinct = distinct geometry+history; non-trivial = history whose accepted "
        "registers include both an explicit offset and a later implicit placement, or whose layout had to be rejected")
ASSUMPTIONS = ["independent layout model of DESIGN.md C17"]
REQUIRED = ["add_accepted", "add_refused", "layout_eq", "layout_rejected", "scope_names", "frozen_add"]


class Interrupt(BaseException):
    """What a Ctrl-C or a framework's cancellation looks like: not an Exception subclass."""


class Boom(Exception):
    pass


class SealingBuilder(csr.Builder):
    """A project subclass whose freeze() appends one more register (an ID / version register) the first time it runs."""
    on_seal = None

    def freeze(self):
        cb, self.on_seal = self.on_seal, None
        if cb is not None:
            cb(self)
        super().freeze()


def n_cases(tier):
    return 4000 if tier == "quick" else 60000


def gen_case(rng, tier, idx):
    dw = rng.choice([8, 8, 16, 32, 64, 24])
    gran = rng.choice([g for g in (1, 2, 4, 8, 16, 32, 64) if dw % g == 0])
    if rng.random() < 0.7:
        gran = 8
    return {"aw": rng.choice([1, 2, 3, 4, 5, 6, 6, 8, 8, 10, 10, 12, 12, 16, 20, 40, 64]), "dw": dw, "gran": gran, "steps": rng.randint(1, 25) if rng.random() < 0.95 else rng.randint(60, 300)}


def ceil_log2(n):
    return 0 if n <= 1 else (n - 1).bit_length()


def model_layout(regs, aw, dw, gran):
    """regs: [(key, name, offset, width)] in insertion order -> ('ok', [(key, name, (s, e))]) or ('reject', why)."""
    placed, names, cursor = [], [], 0
    for key, name, offset, width in regs:
        size = (width + dw - 1) // dw
        p2 = 1 << ceil_log2(max(size, 1))
        if offset is not None:
            start = offset * gran // dw
        else:
            start = (cursor + p2 - 1) // p2 * p2
        end = start + p2
        if end > (1 << aw):
            return "reject", f"overflow: {name} at [{start},{end}) in 2**{aw}"
        for _k, _n, (s, e) in placed:
            if start < e and s < end:
                return "reject", f"overlap: {name} [{start},{end}) with [{s},{e})"
        for n in names:
            if names_conflict(n, name):
                return "reject", f"name collision: {name} vs {n}"
        placed.append((key, name, (start, end)))
        names.append(name)
        cursor = end
    return "ok", sorted(placed, key=lambda t: t[2][0])


def run_case(case):
    rng = random.Random(case["stim_seed"])
    mon = Mon(trace_len=40)
    aw, dw, gran = case["aw"], case["dw"], case["gran"]
    from vmon.simkit import omit
    if rng.random() < 0.15:
        # geometries that cannot be laid out (offsets are given in granularity units: the granularity, also the
        # documented default of 8, has to divide the data width) are refused at construction, not silently adjusted
        for kw in ({"addr_width": aw, "data_width": rng.choice([4, 12, 20, 36])},
                   {"addr_width": aw, "data_width": dw, "granularity": rng.choice([g for g in (3, 5, 7, 9, 48, 128) if dw % g])},
                   {"addr_width": aw, "data_width": dw, "granularity": 0}, {"addr_width": 0, "data_width": dw},
                   {"addr_width": aw, "data_width": 0}, {"addr_width": aw, "data_width": dw, "granularity": "8"}):
            try:
                csr.Builder(**kw)
                refused = None
            except Exception as e:
                refused = e
            mon.run(lambda: mon.ok("construction_refused", isinstance(refused, (ValueError, TypeError)),
                                   f"csr.Builder({kw}) had to be refused with ValueError/TypeError, got {refused!r}"))
    sealing = rng.random() < 0.2
    b = (SealingBuilder if sealing else csr.Builder)(**omit(rng, "csr.Builder", addr_width=aw, data_width=dw, granularity=gran))
    mon.run(lambda: mon.eq("reported_parameters", (b.addr_width, b.data_width, b.granularity), (aw, dw, gran),
                           "Builder.addr_width / data_width / granularity (offsets are computed from them by callers)"))
    # a second, independent builder is filled while the first one is in use (also from inside its open scopes):
    # builders must not influence each other
    b2 = csr.Builder(addr_width=max(aw, 6), data_width=dw, granularity=gran)
    regs2 = []
    ratio = dw // gran
    regs = []                # model: accepted registers in order
    keep = []
    st = {"frozen": False, "scope": [], "explicit": False, "implicit_after_explicit": False}

    def mkreg():
        w = rng.choice([0, 1, 1, dw // 2, dw, dw, dw + 1, 2 * dw, 3 * dw, 4 * dw, 4 * dw + 1, rng.randint(0, 4 * dw + 1)])
        r = csr.Register({"f": csr.Field(action.R, w)}, access="r")
        keep.append(r)
        return r, w
    # noqa: the width returned is the element width

    def seal(bld):
        # the subclass's freeze() hook: an ID register is appended when the builder is sealed. add() accepting it makes it
        # one of the builder's registers like any other
        r = csr.Register({"f": csr.Field(action.R, 8)}, access="r")
        keep.append(r)
        name = "zz_id%d" % len(keep)
        try:
            bld.add(name, r)
        except ValueError:
            return
        regs.append((id(r), tuple(st["scope"]) + (name,), None, 8))
        mon.count("registers_added_by_a_freeze_hook")
        mon.log(f"freeze() hook: add({name!r}, width=8) in scope {st['scope']}")

    if sealing:
        b.on_seal = seal

    def do_add_other():
        r, w = mkreg()
        w = min(w, 2 * dw)
        name = "o%d" % len(keep)
        try:
            out, raised = b2.add(name, r), None
        except Exception as e:
            out, raised = None, e
        mon.log(f"other builder: add({name!r}, width={r.element.width}) while first builder's scope is {st['scope']}")
        mon.ok("other_builder_add", raised is None and out is r, f"independent builder refused a valid add: {raised!r}")
        regs2.append((id(r), (name,), None, r.element.width))

    def do_add():
        if rng.random() < 0.12 and len(regs2) < 12:
            do_add_other()
        r, w = mkreg()
        name = "r%d" % len(keep) if rng.random() < 0.85 else rng.choice(["a", "b", "ab", "blk"])
        offset = None
        bad = None
        x = rng.random()
        if x < 0.35:
            top = (1 << aw) * ratio
            offset = rng.randrange(top + ratio if rng.random() < 0.1 else max(1, top // 2)) // ratio * ratio
            if rng.random() < 0.15:
                offset += rng.randint(1, ratio - 1) if ratio > 1 else 0
        if rng.random() < 0.04:
            offset, bad = rng.choice([-ratio, "0", 1.0]), "offset"
        if rng.random() < 0.05:
            name, bad = rng.choice(["", None, 3, ("a",)]), "name"
        if isinstance(name, str) and name:
            name = spell_str(rng, name)
        reg_obj = r
        if rng.random() < 0.03:
            reg_obj, bad = rng.choice([object(), None, "reg"]), "reg"
        if rng.random() < 0.05 and regs:
            k = rng.choice(regs)[0]
            reg_obj = next(o for o in keep if id(o) == k)
            if bad is None:
                bad = "dup"
        if bad is None and offset is not None and offset % ratio != 0:
            bad = "offset-not-multiple"
        if st["frozen"] and bad is None:
            bad = "frozen"
        why = f"add({name!r}, width={w}, offset={offset!r}) in scope {st['scope']} [{bad or 'valid'}]"
        mon.log(why)
        try:
            out, raised = b.add(name, reg_obj, offset=offset), None
        except Exception as e:
            out, raised = None, e
        if bad is not None:
            mon.ok("add_refused", isinstance(raised, (ValueError, TypeError)),
                   f"{why}: had to be refused with ValueError/TypeError, got {raised!r} / returned {out!r}")
            if bad == "frozen":
                mon.count("frozen_add")
        else:
            mon.ok("add_accepted", raised is None and out is reg_obj, f"{why}: valid add raised {raised!r}")
            regs.append((id(reg_obj), tuple(st["scope"]) + (name,), offset, w))
            if offset is not None:
                st["explicit"] = True
            elif st["explicit"]:
                st["implicit_after_explicit"] = True

    def scoped(depth):
        """Open a random scope, run a few ops inside, sometimes raise through it."""
        kind = rng.choice(["cluster", "index"])
        val = spell_str(rng, rng.choice(["blk", "a", "x"])) if kind == "cluster" else spell_int(rng, rng.randint(0, 3))
        if rng.random() < 0.1:
            val = rng.choice(["", None, 5]) if kind == "cluster" else rng.choice([-1, "0", None])
            try:
                with (b.Cluster(val) if kind == "cluster" else b.Index(val)):
                    entered = True
                    do_add()
            except (TypeError, ValueError) as e:
                entered = False
            mon.ok("scope_refused", not entered, f"{kind}({val!r}) must be refused")
            return
        style = rng.random()
        if style < 0.12 and depth < 3:
            # scope objects created first and entered later, nested (contextlib.ExitStack, a list of scopes): the scope
            # a register is named by is the one it is added in, not the one that existed when the object was made
            val2 = rng.randint(0, 3)
            outer_cm = b.Cluster(val) if kind == "cluster" else b.Index(val)
            inner_cm = b.Index(val2)
            mon.count("scope_objects_created_before_entry")
            with outer_cm:
                st["scope"].append(val)
                do_add()
                with inner_cm:
                    st["scope"].append(val2)
                    do_add()
                    st["scope"].pop()
                do_add()
                st["scope"].pop()
            do_add()
            return
        if style < 0.24 and depth < 3:
            # a generator that opens scopes and yields inside them, abandoned by its consumer: closing it raises
            # GeneratorExit (not an Exception subclass) through the scopes, which must be left all the same
            def bank():
                with (b.Cluster(val) if kind == "cluster" else b.Index(val)):
                    st["scope"].append(val)
                    try:
                        for _k in range(3):
                            do_add()
                            yield _k
                    finally:
                        st["scope"].pop()
            g = bank()
            next(g)
            if rng.random() < 0.5:
                next(g)
            g.close()
            mon.count("scopes_left_by_generator_exit")
            do_add()
            return
        if style < 0.32 and depth < 3:
            # the scope used as a function decorator (contextlib lets a context manager factory decorate a function: the
            # scope is entered afresh around every call), the function called once or twice
            @(b.Cluster(val) if kind == "cluster" else b.Index(val))
            def block():
                st["scope"].append(val)
                try:
                    do_add()
                finally:
                    st["scope"].pop()
            for _k in range(rng.choice([1, 2])):
                block()
            mon.count("scopes_used_as_function_decorators")
            do_add()
            return
        st["scope"].append(val)
        mon.log(f"enter {kind}({val!r})")
        try:
            with (b.Cluster(val) if kind == "cluster" else b.Index(val)):
                for _ in range(rng.randint(0, 3)):
                    if depth < 3 and rng.random() < 0.3:
                        scoped(depth + 1)
                    else:
                        do_add()
                if rng.random() < 0.2:
                    mon.count("exception_through_scope")
                    raise (Boom() if rng.random() < 0.6 else Interrupt())      # an Exception / a bare BaseException subclass
        except (Boom, Interrupt):
            pass
        finally:
            st["scope"].pop()
        mon.log(f"leave {kind}({val!r})")

    def history():
        for i in range(case["steps"]):
            mon.cycle = i
            x = rng.random()
            if x < 0.6:
                do_add()
            elif x < 0.92:
                scoped(1)
            elif x < 0.96:
                b.freeze()
                st["frozen"] = True
                mon.log("freeze()")
        # layout
        results = []
        for attempt in range(2):
            try:
                m, raised = b.as_memory_map(), None
            except Exception as e:
                m, raised = None, e
            results.append((m, raised))
            # (judged after the call: a freeze() hook that runs inside the first as_memory_map() adds to the registers)
            verdict, layout = model_layout(regs, aw, dw, gran)
            if verdict == "reject":
                mon.ok("layout_rejected", isinstance(raised, (ValueError, TypeError)),
                       f"as_memory_map() had to reject the layout ({layout}) but "
                       f"{'returned a map' if raised is None else repr(raised)}")
            else:
                mon.ok("layout_accepted", raised is None, f"as_memory_map() raised {raised!r} on a legal layout {layout}")
                got = [(id(r), tuple(n), tuple(rg)) for r, n, rg in m.resources()]
                mon.eq("layout_eq", got, layout, "resources() of as_memory_map()")
                mon.count("scope_names", sum(1 for _k, n, _r in layout if len(n) > 1))
                mon.ok("map_geometry", m.addr_width == aw and m.data_width == dw, "geometry of the produced map")
        if regs2:
            verdict2, layout2 = model_layout(regs2, max(aw, 6), dw, gran)
            try:
                m2, raised2 = b2.as_memory_map(), None
            except Exception as e:
                m2, raised2 = None, e
            if verdict2 == "ok":
                mon.ok("other_builder_layout", raised2 is None, f"independent builder: as_memory_map() raised {raised2!r}")
                if m2 is not None:
                    mon.eq("other_builder_layout", [(id(r), tuple(n), tuple(rg)) for r, n, rg in m2.resources()], layout2,
                           "layout of the independent builder (names must not carry the first builder's scopes)")
        st["frozen"] = True
        # after as_memory_map the builder is frozen
        r, w = mkreg()
        try:
            b.add("late", r)
            raised = None
        except Exception as e:
            raised = e
        mon.ok("frozen_add", isinstance(raised, ValueError), f"add after as_memory_map() must raise ValueError, got {raised!r}")
        st["verdict"] = verdict

    mon.run(history)
    nontrivial = st.get("verdict") == "reject" or st["implicit_after_explicit"]
    mon.bin("verdicts", st.get("verdict"))
    summary = {"aw": aw, "dw": dw, "gran": gran, "stim": case["stim_seed"], "history_tail": list(mon.trace)[-10:]}
    return mon.result(nontrivial=nontrivial, summary=summary)


LEVEL_TEXT = ("Recording proxy over random csr.Builder call histories judged call-by-call, with the produced memory map "
              "(or its rejection) compared with an independent layout model.")
LEVEL_NOTE = "Trusted: CPython and the layout model (explicit offset*granularity/data_width; implicit = aligned to own power-of-two size after the previously added register)."
TECHNIQUE = "runtime monitoring: API history recorder + independent layout model"
DESIGN_REF = "DESIGN.md section 4, C17"
