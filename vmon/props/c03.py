# amaranth: UnusedElaboratable=no
"""C03 - resource lookup through windows is coherent in every direction.

Each case builds a random tree of live MemoryMaps (depth <= 5; named / anonymous; ratio-1 and
sparse windows at any level; dense ratio 2/4/8 windows over leaf maps whose alignment admits
them), then compares all_resources(), find_resource() for every resource (and for objects never
added) and decode_address() for EVERY address of the root with an independent translator that
uses only the non-recursive queries resources()/windows() and plain arithmetic.
"""
import random

from vmon import env  # noqa: F401
from vmon.suitemon import suite_case
from vmon.simkit import Mon, omit
from vmon.models.memmap import translate_tree

from amaranth.lib import wiring
from amaranth_soc.memory import MemoryMap

ID = "C03"
RULE = ("cases = random trees of MemoryMaps (depth 1-5, root space <= 2**12, named/anonymous, ratio-1, sparse and dense "
        "ratio 2/4/8 windows, implicit/explicit/aligned placement) with every root address decoded and every resource "
        "looked up; distinct = distinct tree shape (window kinds, bases, resource ranges); non-trivial = tree with a "
        "window at a non-zero base containing a resource at a non-zero local offset")
ASSUMPTIONS = ["the non-recursive queries resources()/windows() are the ground truth (they are what C02 monitors)",
               "plain arithmetic [b + s/r, b + e/r), width*r, window name prefixed"]
REQUIRED = ["all_resources_eq", "find_resource_eq", "find_missing_keyerror", "decode_hit", "decode_miss", "ascending"]


class Res(wiring.Component):
    def __init__(self):
        super().__init__({})


class FalsyRes(wiring.Component):
    """A resource whose truth value is False (a container-like peripheral model that is still empty): the memory
    map identifies resources by identity, never by truth value."""
    def __init__(self):
        super().__init__({})

    def __len__(self):
        return 0


def n_cases(tier):
    return 2000 if tier == "quick" else 30000


def gen_case(rng, tier, idx):
    if idx == 0:
        return {"suite": True}     # the repository\'s own test-suite under the monitors (vmon/suitemon.py)
    return {"root_aw": rng.choice([3, 4, 5, 6, 7, 8, 9, 10, 11, 12, 12, 16, 24, 32, 54, 64]), "depth": rng.randint(1, 5),
            "root_dw": rng.choice([8, 8, 16, 32, 64])}


def run_case(case):
    if case.get("suite"):
        return suite_case(Mon(), ['C03'], ['C03_walks', 'C03_decodes'])
    rng = random.Random(case["stim_seed"])
    mon = Mon()
    all_maps = []           # every map created for the tree
    all_res = []            # every resource added anywhere in the tree
    shape = []              # canonical description of the tree
    st = {"n": 0, "nontrivial": False, "kinds": set(), "depth": 0}

    def name():
        st["n"] += 1
        return rng.choice([f"r{st['n']}", (f"r{st['n']}",), ("blk", st["n"]), (f"r{st['n']}", "lo")])

    def partial_queries(mm_):
        """Listings that are abandoned part-way, or two of them in flight at once: a listing is a fresh walk each time."""
        try:
            how = rng.choice(["next", "break", "zip", "nested"])
            for q in (mm_.all_resources, mm_.resources, mm_.windows, mm_.window_patterns):
                if how == "next":
                    next(iter(q()), None)
                elif how == "break":
                    for _x in q():
                        break
                elif how == "zip":
                    for _x, _y in zip(q(), q()):
                        if rng.random() < 0.5:
                            break
                else:
                    for _x in q():
                        for _y in q():
                            break
                        if rng.random() < 0.5:
                            break
            mon.count("partially_consumed_listings")
        except AssertionError:
            pass

    def build(aw, dw, depth, leaf_only=False, min_align=0, lvl=1, ancestors=()):
        al = rng.choice([0, 0, 1, 2]) if aw > 3 else 0
        al = max(al, min_align)
        if al >= aw:
            al = min_align
        m = MemoryMap(**omit(rng, "MemoryMap", addr_width=aw, data_width=dw, alignment=al))
        all_maps.append(m)
        st["depth"] = max(st["depth"], lvl)
        desc = {"aw": aw, "dw": dw, "al": al, "items": []}
        n_items = rng.randint(1, 5) if rng.random() < 0.9 else rng.randint(17, 40)
        for _ in range(n_items):
            if rng.random() < 0.2:
                partial_queries(rng.choice(all_maps))
            if rng.random() < 0.3:
                list(m.all_resources()), list(m.window_patterns()), m.decode_address(rng.randrange(1 << aw))
                try:
                    m.find_resource(all_res[-1]) if all_res else None
                except KeyError:
                    pass
            kind = "res" if (leaf_only or depth <= 1 or aw < 2 or rng.random() < 0.45) else "win"
            if rng.random() < 0.25:
                try:
                    m.align_to(rng.randint(0, max(0, aw - 1)))
                except ValueError:
                    pass
            if kind == "res":
                r = Res() if rng.random() < 0.85 else FalsyRes()
                size = rng.choice([1, 1, 2, 3, 4, max(1, (1 << aw) // rng.choice([2, 4, 8, 16]))])
                addr = None
                if rng.random() < 0.3:
                    addr = rng.randrange(1 << aw) // (1 << al) * (1 << al)
                try:
                    s, e = m.add_resource(r, name=name(), size=size, addr=addr,
                                          alignment=rng.choice([None, None, 0, 1, 2]))
                except ValueError:
                    continue
                all_res.append(r)
                desc["items"].append(("res", s, e))
                if ancestors and rng.random() < 0.3:
                    # asked too early: the map this resource lives in is not attached to its future parents yet
                    for anc in ancestors:
                        try:
                            anc.find_resource(r)
                            early = True
                        except KeyError:
                            early = False
                        mon.count("early_lookups")
                        if early:
                            mon.run(lambda: mon.fail("find_missing_keyerror",
                                                     "find_resource() found a resource of a map that is not attached yet"))
            else:
                mode = rng.choice(["same", "same", "sparse", "dense"])
                caw = rng.randint(1, aw - 1)
                if mode == "same":
                    child, cdesc = build(caw, dw, depth - 1, lvl=lvl + 1, ancestors=ancestors + (m,))
                    kw = {}
                elif mode == "sparse":
                    cdw = rng.choice([w for w in (4, 8, 16, 32) if w < dw] or [dw])
                    child, cdesc = build(caw, cdw, depth - 1, lvl=lvl + 1, ancestors=ancestors + (m,))
                    kw = {"sparse": True} if cdw != dw else {}
                    if cdw == dw:
                        mode = "same"
                else:
                    ratios = [r for r in (2, 4, 8) if dw % r == 0 and dw // r >= 1]
                    if not ratios:
                        continue
                    ratio = rng.choice(ratios)
                    lg = ratio.bit_length() - 1
                    caw = rng.randint(lg + 1, max(lg + 1, min(aw - 1 + lg, 12)))
                    child, cdesc = build(caw, dw // ratio, 1, leaf_only=True, min_align=lg, lvl=lvl + 1, ancestors=ancestors + (m,))
                    kw = {"sparse": False}
                addr = None
                if rng.random() < 0.3:
                    span = max(1, (1 << child.addr_width) // (1 if mode != "dense" else ratio))
                    addr = rng.randrange(1 << aw) // span * span
                wname = None if rng.random() < 0.4 else name()
                try:
                    b, e, r_ = m.add_window(child, name=wname, addr=addr, **kw)
                except ValueError:
                    continue
                st["kinds"].add(mode if mode != "dense" else f"dense{r_}")
                desc["items"].append(("win", mode, b, e, r_, wname is None, cdesc))
                if b > 0 and any(it[0] == "res" and it[1] > 0 for it in cdesc["items"]):
                    st["nontrivial"] = True
        return m, desc

    root, desc = build(case["root_aw"], case["root_dw"], case["depth"])

    def checks(root=root):
        exp = translate_tree(root)
        got = [(id(i.resource), tuple(tuple(p) for p in i.path), i.start, i.end, i.width)
               for i in root.all_resources()]
        mon.eq("all_resources_eq", got, exp, "all_resources() vs independent translation of resources()/windows()")
        starts = [g[2] for g in got]
        mon.ok("ascending", starts == sorted(starts), f"all_resources() not ascending: {starts}")
        ids = [g[0] for g in got]
        attached = set(e[0] for e in exp)
        mon.ok("each_once", len(ids) == len(set(ids)), "a resource is reported more than once")
        by_id = {e[0]: e for e in exp}
        for r in all_res:
            if id(r) in attached:
                try:
                    i = root.find_resource(r)
                except KeyError:
                    mon.fail("find_resource_eq", f"find_resource() raises KeyError for the resource all_resources() reports as "
                                                 f"{by_id[id(r)][1:]}")
                mon.eq("find_resource_eq",
                       (id(i.resource), tuple(tuple(p) for p in i.path), i.start, i.end, i.width), by_id[id(r)],
                       "find_resource()")
            else:
                # resource lives in a map whose add_window was refused: not reachable from the root
                try:
                    root.find_resource(r)
                    found = True
                except KeyError:
                    found = False
                mon.ok("find_missing_keyerror", not found, "find_resource() found a resource of an unattached map")
        for obj in (Res(), Res(), object(), None, "x"):
            try:
                root.find_resource(obj)
                found = True
            except KeyError:
                found = False
            mon.ok("find_missing_keyerror", not found, f"find_resource({obj!r}) did not raise KeyError")
        # every address of the root
        owner = {}
        if root.addr_width <= 12:
            for rid, _p, s, e, _w in exp:
                for a in range(s, e):
                    if a in owner:
                        mon.fail("ranges_overlap", f"translated ranges overlap at address {a}")
                    owner[a] = rid
        else:
            spans = sorted((s, e, rid) for rid, _p, s, e, _w in exp)
            for (s0, e0, _r0), (s1, _e1, _r1) in zip(spans, spans[1:]):
                if s1 < e0:
                    mon.fail("ranges_overlap", f"translated ranges overlap at address {s1}")

            class Owner:
                def __contains__(self, a):
                    return self.get(a) is not None

                def get(self, a):
                    import bisect
                    i = bisect.bisect_right(spans, (a, float("inf"), 0)) - 1
                    return spans[i][2] if i >= 0 and spans[i][0] <= a < spans[i][1] else None

                def __getitem__(self, a):
                    return self.get(a)
            owner = Owner()
        if root.addr_width <= 12:
            probe = range(1 << root.addr_width)
        else:
            # space too large to enumerate: every range boundary +-1, a sample inside every range, random holes
            top = 1 << root.addr_width
            cand = {0, top - 1}
            for _rid, _p, s_, e_, _w in exp:
                cand.update((s_ - 1, s_, s_ + 1, e_ - 2, e_ - 1, e_, (s_ + e_) // 2, rng.randrange(s_, e_)))
            cand.update(rng.randrange(top) for _ in range(200))
            probe = sorted(a for a in cand if 0 <= a < top)
            mon.count("large_space_sampled_addresses", len(probe))
        for a in probe:
            d = root.decode_address(a)
            if a in owner:
                mon.ok("decode_hit", d is not None and id(d) == owner[a],
                       f"decode_address({a}) = {d!r}, but the address lies in the reported range of another/that resource")
            else:
                mon.ok("decode_miss", d is None, f"decode_address({a}) = {d!r}, but no reported range holds it")
        for a in (-1, 1 << root.addr_width, (1 << root.addr_width) + 5):
            try:
                d = root.decode_address(a)
            except Exception as e:   # out-of-range queries: only 'no resource' is required
                d = None
            mon.ok("decode_miss", d is None, f"decode_address({a}) outside the map returned {d!r}")

    # a second vantage point: another root that windows one of the (already frozen) subtrees - the same map object
    # seen from two parents at different bases / under different names (CPU bus and DMA bus, say)
    second = None
    subs = [m for m in all_maps if m is not root and getattr(m, "_frozen", True)]
    if subs and rng.random() < 0.5:
        sub = rng.choice(subs)
        aw2 = min(sub.addr_width + rng.randint(1, 3), 64)
        second = MemoryMap(addr_width=aw2, data_width=sub.data_width)
        try:
            if rng.random() < 0.7:
                second.add_resource(Res(), name="vantage_pad", size=rng.choice([1, 3, 1 << sub.addr_width]))
            second.add_window(sub, name=rng.choice([None, "alias", ("alias", 1)]))
        except ValueError:
            second = None
    for mm_ in rng.sample(all_maps, min(len(all_maps), 3)):
        if rng.random() < 0.5:
            partial_queries(mm_)
    if second is not None and rng.random() < 0.5:
        mon.run(lambda: checks(second))
        mon.run(checks)
    else:
        mon.run(checks)
        if second is not None:
            mon.run(lambda: checks(second))
    if second is not None:
        mon.count("second_vantage_points")
    mon.bin("depth", st["depth"])
    for k in st["kinds"]:
        mon.bin("window_kinds", k)
    mon.count("resources_in_tree", len(all_res))
    summary = {"root_aw": case["root_aw"], "root_dw": case["root_dw"], "tree": desc}
    return mon.result(nontrivial=st["nontrivial"], summary=summary)


LEVEL_TEXT = ("Differential monitor on live MemoryMap trees: all_resources(), find_resource() and decode_address() at "
              "every root address are compared with an independent translator built only on the non-recursive queries. "
              "Exhaustive over the addresses of each explored tree; the trees themselves are sampled.")
LEVEL_NOTE = "Trusted: CPython; resources()/windows() as ground truth (monitored by C02); 15-line translator."
TECHNIQUE = "runtime monitoring: differential oracle (independent translator) over generated map trees, every address decoded"
DESIGN_REF = "DESIGN.md section 4, C03"
