# amaranth: UnusedElaboratable=no
"""C18 - names in a memory map are unique and prefix-free; conflicts are refused atomically.

History monitor over trees of live maps. Names are drawn from a tiny alphabet so that equal /
prefix / extension relations are frequent; address widths grow by 5 bits per level and every
size is 1, so a name conflict is the only possible reason for a refusal (the model confirms
this: any other predicted refusal reason is counted as a generator artefact, never judged).
"""
import enum
import random

from vmon import env  # noqa: F401
from vmon.suitemon import suite_case
from vmon.simkit import Mon, spell_int
from vmon.models.memmap import MapModel, REFUSE, ACCEPT, live_resources, live_windows, live_all, valid_name

from amaranth.lib import wiring
from amaranth_soc.memory import MemoryMap

ID = "C18"
RULE = ("cases = random histories (15-70 calls) of add_resource/add_window on a 3-level forest of live maps with names "
        "drawn from parts {'a','b','ab','0',0,1}, length 1-3, plain strings included, named and anonymous windows; "
        "distinct = distinct history; non-trivial = history containing at least one refusal for a prefix/extension "
        "(not merely equal) conflict and one accepted name that shares a first part with an existing name")
ASSUMPTIONS = ["set-of-tuples namespace model: conflict iff equal, prefix or extension, parts compared with Python equality (0 != '0'; an IntEnum member, bool or int subclass equals the int, a str-mixin Enum member equals its value)"]
REQUIRED = ["name_refused", "name_accepted", "atomic", "paths_distinct", "paths_match_model"]

PARTS = ["a", "b", "ab", "0", 0, 1]


class Res(wiring.Component):
    def __init__(self):
        super().__init__({})


class GrowingMap(MemoryMap):
    """A project's own MemoryMap subclass that lays out one more resource when it is sealed (an ID register appended
    by the freeze() hook). The name it adds is unique, so it conflicts with nothing at that moment."""
    counter = [0]

    def freeze(self):
        if not getattr(self, "_grown", False) and not getattr(self, "_frozen", False):
            self._grown = True
            GrowingMap.counter[0] += 1
            self.hook_res = Res()
            self.hook_name = ("hook", GrowingMap.counter[0])
            try:
                self.hook_range = self.add_resource(self.hook_res, name=self.hook_name, size=1)
            except ValueError:
                self.hook_res = None          # no room left: sealed as it is
        super().freeze()


class EqRes(wiring.Component):
    """A resource class with value equality (instances of one peripheral type that compare equal): the memory map
    identifies resources by identity."""
    def __init__(self, kind):
        super().__init__({})
        self.kind = kind

    def __eq__(self, other):
        return isinstance(other, EqRes) and other.kind == self.kind

    def __hash__(self):
        return hash(self.kind)


def n_cases(tier):
    return 4000 if tier == "quick" else 60000


def gen_case(rng, tier, idx):
    if idx == 0:
        return {"suite": True}     # the repository\'s own test-suite under the monitors (vmon/suitemon.py)
    return {"steps": rng.randint(15, 70), "maps_per_level": [rng.randint(2, 5), rng.randint(1, 3), 1]}


class StrPart(str, enum.Enum):
    """The common `class RegName(str, Enum)` idiom: members are strings equal to their value."""
    A = "a"
    B = "b"
    AB = "ab"
    ZERO = "0"


class StrSub(str):
    pass


def respell(rng, part):
    """The same part as another object that equals it: bool / IntEnum member / int subclass for ints, a str-mixin
    Enum member or a str subclass for strings."""
    if isinstance(part, int):
        return spell_int(rng, part, p=1.0)
    return rng.choice([StrPart(part), StrSub(part)]) if part in ("a", "b", "ab", "0") else StrSub(part)


def gen_name(rng):
    n = rng.choice([1, 1, 1, 2, 2, 3, 3, 4, 6])
    parts = PARTS if rng.random() < 0.9 else PARTS + [255, 256, 257, 2 ** 64, "a" * 40, "A", "á"]
    name = tuple(rng.choice(parts) for _ in range(n))
    if rng.random() < 0.08:
        k = rng.randrange(n)
        name = name[:k] + (respell(rng, name[k]),) + name[k + 1:]
    if n == 1 and isinstance(name[0], str) and rng.random() < 0.4:
        return name[0]          # plain string form
    return name


def model_paths(mm):
    out = []
    for it in mm.items:
        if it["kind"] == "res":
            out.append((it["name"],))
        else:
            for p in model_paths(it["child"]):
                out.append(p if it["name"] is None else (it["name"],) + p)
    return out


def run_case(case):
    if case.get("suite"):
        return suite_case(Mon(), ['C18'], ['C18_walks', 'refusals_seen'])
    rng = random.Random(case["stim_seed"])
    mon = Mon(trace_len=40)
    lives, models, level = [], [], []
    for lv, n in enumerate(case["maps_per_level"]):
        for _ in range(n):
            aw = 5 * (lv + 1)
            lives.append((GrowingMap if (lv < 2 and rng.random() < 0.2) else MemoryMap)(addr_width=aw, data_width=8))
            models.append(MapModel(aw, 8, 0, label=f"L{lv}M{len(lives) - 1}"))
            level.append(lv)
    used_as_window = set()
    st = {"prefix_refusal": False, "sibling_accept": False, "keep": [], "hook_names": [], "retry": None}

    def snapshot(t):
        # align_to(0) reports the placement cursor without moving it (the maps here have alignment 0)
        return (live_resources(lives[t]), live_windows(lives[t]), live_all(lives[t]), lives[t].align_to(0))

    def check_paths(t, why):
        paths = [p for (_r, p, _s, _e, _w) in live_all(lives[t])]
        mon.ok("paths_distinct", len(set(paths)) == len(paths), f"{why}: duplicate paths in all_resources(): {paths}")
        mon.eq("paths_match_model", sorted(paths, key=repr), sorted(model_paths(models[t]), key=repr),
               f"{why}: paths of {models[t].label}")
        if rng.random() < 0.2:
            by_id = {}
            for (rid, p, _s, _e, _w) in live_all(lives[t]):
                by_id.setdefault(rid, []).append(p)       # a map shared by two parents is reachable along two paths
            for r in st["keep"]:
                if id(r) in by_id:
                    got = tuple(tuple(x) for x in lives[t].find_resource(r).path)
                    mon.ok("find_resource_path", got in by_id[id(r)],
                           f"{why}: find_resource() reports path {got}, all_resources() reports {by_id[id(r)]} for that object")

    def judge(t, pred, raised, name, why, before):
        mm = models[t]
        if isinstance(raised, Warning):
            # warnings-as-errors shard: judged for atomicity only
            mon.count("library_warnings_raised_as_errors")
            mon.eq("atomic", snapshot(t), before, f"{why}: raised {type(raised).__name__} but changed {mm.label}")
            return False
        if pred.kind == REFUSE and pred.reason not in ("name-conflict", "name-conflict-absorbed", "bad-name"):
            mon.count("generator_artefact_" + pred.reason)
            return raised is None
        if raised is not None:
            mon.ok("refusal_class", isinstance(raised, (ValueError, TypeError)), f"{why}: {raised!r}")
            mon.ok("legal_name_refused", pred.kind != ACCEPT,
                   f"{why}: name is legal w.r.t. visible names {sorted(mm.names, key=repr)} but was refused: {raised}")
            mon.eq("atomic", snapshot(t), before, f"{why}: refused but changed {mm.label}")
            mon.count("name_refused")
            return False
        mon.ok("conflict_accepted", pred.kind != REFUSE,
               f"{why}: conflicts ({pred.reason}) with visible names {sorted(mm.names, key=repr)} but was accepted")
        mon.count("name_accepted")
        return True

    def history():
        for i in range(case["steps"]):
            mon.cycle = i
            cands = [t for t in range(len(lives)) if not models[t].frozen and len(models[t].items) < 14]
            if not cands:
                break
            t = rng.choice(cands)
            # a refused window is grown and then offered again to the same parent (same name form): whatever either map
            # remembers from the refused attempt must not outlive it
            forced, plan = None, st["retry"]
            if plan is not None and rng.random() < 0.5:
                pt, pc, pname, stage = plan
                if stage == 0 and pc in cands:
                    t, st["retry"] = pc, (pt, pc, pname, 1)
                    forced = "grow"
                elif stage == 1 and pt in cands and pc not in used_as_window:
                    t, st["retry"] = pt, None
                    forced = "retry"
                    mon.count("refused_windows_grown_and_offered_again")
                else:
                    st["retry"] = None
            m, mm = lives[t], models[t]
            before = snapshot(t)
            do_win = level[t] > 0 and rng.random() < (0.8 if forced == "grow" else 0.45)
            if do_win or forced == "retry":
                kids = [c for c in range(len(lives)) if level[c] < level[t] and
                        (c not in used_as_window or (rng.random() < 0.25 and id(lives[c]) not in models[t].keys))]
                if forced == "retry":
                    kids = [pc]
                do_win = bool(kids)
            if do_win:
                c = rng.choice(kids)
                name = None if rng.random() < (0.8 if forced == "grow" else 0.5) else gen_name(rng)
                if forced == "retry":
                    name = pname
                why = f"{mm.label}.add_window({models[c].label} names={sorted(models[c].names, key=repr)}, name={name!r})"
                mon.log(why)
                waddr = None
                if rng.random() < 0.06 and mm.items:
                    waddr = mm.items[0]["start"] // (1 << models[c].aw) * (1 << models[c].aw)   # refused: overlap
                pred = mm.predict_add_window(id(lives[c]), True, models[c], name, waddr, None)
                if pred.kind == REFUSE and pred.reason in ("name-conflict", "name-conflict-absorbed"):
                    vn = valid_name(name) if name is not None else None
                    cand = [vn] if vn else list(models[c].names)
                    if any(a != b for a in cand for b in mm.names
                           if a[:min(len(a), len(b))] == b[:min(len(a), len(b))]):
                        st["prefix_refusal"] = True
                before_c = snapshot(c)
                try:
                    out, raised = m.add_window(lives[c], name=name, addr=waddr), None
                except Exception as e:
                    out, raised = None, e
                if waddr is not None and raised is not None:
                    mon.count("refused_for_address_reason")
                    mon.eq("atomic", snapshot(t), before, f"{why}: refused (address) but changed {mm.label}")
                if c in used_as_window and raised is not None and pred.kind == ACCEPT:
                    # a window that already has another parent: refusing it is not a naming matter (nothing in C18
                    # says a map may have two parents), only atomicity is checked
                    mon.count("second_parent_refused_not_judged")
                    mon.eq("atomic", snapshot(t), before, f"{why}: refused but changed {mm.label}")
                    check_paths(t, why)
                    continue
                if judge(t, pred, raised, name, why, before):
                    grown = lives[c]
                    if isinstance(grown, GrowingMap) and getattr(grown, "hook_res", None) is not None and \
                            id(grown.hook_res) not in models[c].keys:
                        # the window's freeze() hook added a resource while it was being attached: it is part of the
                        # window now, and (through an anonymous window) one of the parent's visible names
                        models[c].commit_resource(id(grown.hook_res), grown.hook_name, grown.hook_range[0], grown.hook_range[1])
                        st["keep"].append(grown.hook_res)
                        st["hook_names"].append(grown.hook_name)
                        mon.count("resources_added_by_a_freeze_hook")
                    mm.commit_window(id(lives[c]), models[c], name, out[0], out[1], out[2])
                    used_as_window.add(c)
                else:
                    mon.eq("atomic", snapshot(c), before_c, f"{why}: refused but changed the window map")
                    if raised is not None and forced is None and c not in used_as_window and st["retry"] is None \
                            and not models[c].frozen:
                        st["retry"] = (t, c, name, 0)
            else:
                r = Res() if rng.random() < 0.7 else EqRes(rng.choice(["uart", "timer"]))
                st["keep"].append(r)
                name = gen_name(rng)
                if st["hook_names"] and rng.random() < 0.15:
                    hn = rng.choice(st["hook_names"])
                    # equal to / extension of a hook's name (never its first part alone: that would collide with the names
                    # future hooks add, which add_window() cannot foresee - not a matter for C18)
                    name = rng.choice([hn, hn + ("x",), hn + (0, "y")])
                if rng.random() < 0.03:
                    name = rng.choice(["", (), ("a", ""), ("a", -1), None])
                why = f"{mm.label}.add_resource(name={name!r})"
                mon.log(why)
                addr = None
                if rng.random() < 0.06 and mm.items:
                    addr = mm.items[0]["start"]     # refused for an address reason: its (legal) name must stay available
                al = None if rng.random() < 0.8 else rng.choice([1, 2])
                pred = mm.predict_add_resource(id(r), True, name, 1, addr, al)
                vn = valid_name(name)
                if vn and pred.kind == REFUSE and pred.reason == "name-conflict" and vn not in mm.names:
                    st["prefix_refusal"] = True
                if vn and pred.kind == ACCEPT and any(n[0] == vn[0] and type(n[0]) is type(vn[0]) for n in mm.names):
                    st["sibling_accept"] = True
                try:
                    out, raised = m.add_resource(r, name=name, size=1, addr=addr, alignment=al), None
                except Exception as e:
                    out, raised = None, e
                if addr is not None and raised is not None:
                    mon.count("refused_for_address_reason")
                    mon.eq("atomic", snapshot(t), before, f"{why}: refused (address) but changed {mm.label}")
                if judge(t, pred, raised, name, why, before):
                    mm.commit_resource(id(r), name, out[0], out[1])
            check_paths(t, why)
        for t in range(len(lives)):
            check_paths(t, "end of history")

    mon.run(history)
    mon.count("calls", mon.cycle + 1)
    summary = {"maps_per_level": case["maps_per_level"], "stim": case["stim_seed"], "history_tail": list(mon.trace)[-8:]}
    return mon.result(nontrivial=st["prefix_refusal"] and st["sibling_accept"], summary=summary)


LEVEL_TEXT = ("Recording proxy over random naming histories on live MemoryMap trees, every accept/refuse decision and "
              "every reported path compared with a set-of-tuples prefix-free namespace model after every call.")
LEVEL_NOTE = "Trusted: CPython and the namespace model; sizes/widths are chosen so that names are the only refusal reason."
TECHNIQUE = "runtime monitoring: API history recorder + executable namespace model, checked after every call"
DESIGN_REF = "DESIGN.md section 4, C18"
