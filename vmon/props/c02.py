# amaranth: UnusedElaboratable=no
"""C02 - memory-map allocation never overlaps, overflows, misaligns or half-applies.

History monitor: a pool of live MemoryMaps receives a random call history (add_resource,
add_window between pool members, align_to, freeze, freezing through csr.Bridge /
PeripheralInfo, invalid arguments interleaved). A reference allocator model predicts every
call; after every call the public queries of every touched map are compared with the model
and the structural invariants are re-walked. The placement cursor is observed through
align_to(0) probes and through every later implicit placement.
"""
import random

from vmon import env  # noqa: F401
from vmon.suitemon import suite_case
from vmon.simkit import spell_int, spell_bool, Mon
from vmon.models.memmap import (MapModel, REFUSE, ACCEPT, MAY, live_resources, live_windows, live_all,
                                check_invariants)

from amaranth.lib import wiring
from amaranth_soc import csr
from amaranth_soc.csr import action
from amaranth_soc.memory import MemoryMap
from amaranth_soc.periph import PeripheralInfo

ID = "C02"
RULE = ("cases = random call histories (10-60 calls) on a pool of 2-5 live maps of address width 1-16 (add_resource with "
        "sizes 0..2**aw+1, implicit/explicit addresses biased to touch or straddle existing ranges, per-call alignment, "
        "add_window between pool members incl. sparse/dense/wider/duplicate, align_to, freeze, freeze through "
        "csr.Bridge/PeripheralInfo/add_window, invalid arguments); distinct = distinct history; non-trivial = history with "
        ">= 1 refused call followed by >= 1 implicit placement or cursor probe on the same map that was compared with the model")
ASSUMPTIONS = ["reference allocator model of DESIGN.md C02 (models/memmap.py)",
               "explicit addresses: only 'honoured exactly or rejected' is asserted; dense ratio>1 windows: no numeric alignment"]
REQUIRED = ["walker_reported", "walker_maps", "refusal", "refused_calls", "must_accept", "placement", "size", "reported_resources", "reported_windows", "atomic",
            "frozen_add", "cursor_probe", "inv_disjoint", "inv_bounds"]


class Res(wiring.Component):
    def __init__(self):
        super().__init__({})


class FlakyMap(MemoryMap):
    """A project's own MemoryMap subclass whose freeze() hook can fail (it validates something of its own first)."""
    fail_freeze = False

    def freeze(self):
        if self.fail_freeze:
            raise ValueError("FlakyMap: not ready to be frozen (harness-injected failure of the subclass hook)")
        super().freeze()


class FalsyRes(wiring.Component):
    """A resource whose truth value is False (a container-like peripheral model that is still empty): the memory
    map identifies resources by identity, never by truth value."""
    def __init__(self):
        super().__init__({})

    def __len__(self):
        return 0


def n_cases(tier):
    return 4000 if tier == "quick" else 60000


def gen_case(rng, tier, idx):
    if idx == 0:
        return {"suite": True}     # the repository\'s own test-suite under the monitors (vmon/suitemon.py)
    if idx % 8 == 7:
        # maps built indirectly: decoders, bridges, builders, peripherals (invariant walker installed on the class)
        return {"kind": "hier", "root": rng.choice(["wb", "wb", "csr"]), "max_space": rng.choice([8, 10, 12, 14])}
    root_aw = rng.choice([1, 2, 3, 4, 4, 5, 6, 8, 8, 10, 12, 16, 24, 32, 53, 54, 64, 64, 100])
    nmaps = rng.randint(2, 5)
    maps = []
    for k in range(nmaps):
        aw = root_aw if k == 0 else rng.randint(1, max(1, root_aw - rng.choice([0, 1, 1, 2, 3])))
        dw = 8 if rng.random() < 0.6 else rng.choice([8, 16, 32, 24])
        if k == 0 and rng.random() < 0.5:
            dw = rng.choice([8, 16, 32])
        al = rng.choice([0, 0, 0, 1, 2, 3]) if aw > 2 else rng.choice([0, 0, 1])
        maps.append({"aw": aw, "dw": dw, "al": al})
    case = {"maps": maps, "steps": rng.randint(10, 60), "registers_only": rng.random() < 0.25}
    if rng.random() < 0.05:
        # width-converting hierarchy prepared before the history starts: a narrow leaf behind a sparse window of a
        # middle map, so that the wider first map can be offered the middle map as a dense window
        wide = rng.choice([16, 32])
        case["maps"] = [{"aw": rng.choice([6, 8, 10]), "dw": wide * 2, "al": rng.choice([0, 0, 1])},
                        {"aw": rng.choice([3, 4, 5]), "dw": wide, "al": rng.choice([1, 1, 2])}, {"aw": 2, "dw": 8, "al": 0}] + maps[:2]
        case["nested_preamble"] = True
    return case


NAMES_BAD = [None, "", (), ("a", ""), ("a", -1), 3, ("a", 1.5), ["a"]]


def run_hier(case, rng):
    """Invariant walker at a hook: MemoryMap.add_resource / add_window are wrapped at class level (so calls made from
    inside amaranth_soc - Decoder.add, WishboneCSRBridge, Builder.as_memory_map, SRAM, EventMonitor, GPIO - go through
    it) while a whole bus hierarchy is assembled; after every call the touched map's invariants are re-walked, the
    returned range must be reported by the non-recursive queries, and a raising call must leave them unchanged."""
    from vmon.props import c01 as c01mod
    mon = Mon(trace_len=20)
    orig_res, orig_win = MemoryMap.add_resource, MemoryMap.add_window
    st = {"maps": {}}

    def wrap(orig, is_win):
        def wrapped(self, obj, *a, **kw):
            before = (live_resources(self), live_windows(self))
            try:
                out = orig(self, obj, *a, **kw)
            except Exception as e:
                mon.counters["walker_atomic"] += 1
                if (live_resources(self), live_windows(self)) != before:
                    mon.fail("walker_atomic", f"{'add_window' if is_win else 'add_resource'} raised {e!r} but changed the map")
                raise
            st["maps"][id(self)] = self
            mon.log(f"{'add_window' if is_win else 'add_resource'} -> {out}")
            check_invariants(mon, self, "map built by the toolkit")
            rep = live_windows(self) if is_win else live_resources(self)
            mon.ok("walker_reported", any(r[0] == id(obj) and tuple(r[2][:2]) == tuple(out[:2]) for r in rep),
                   f"range {out} returned for {obj!r} is not what the queries report")
            if is_win:
                mon.ok("walker_window_frozen", obj._frozen if hasattr(obj, "_frozen") else True,
                       "a map used as a window must be frozen")
            return out
        return wrapped

    MemoryMap.add_resource = wrap(orig_res, False)
    MemoryMap.add_window = wrap(orig_win, True)
    try:
        def build():
            B = c01mod.Build(rng)
            if case["root"] == "wb":
                cdw = rng.choice([8, 16, 32])
                wdw = rng.choice([w for w in (8, 16, 32, 64) if w >= cdw])
                gbits = (wdw // cdw).bit_length() - 1
                root = B.wb_tree(rng.randint(max(2, 5 - gbits), case["max_space"] - gbits), wdw, cdw, rng.randint(1, 3), 1)
            else:
                root = B.csr_tree(rng.randint(3, case["max_space"]), rng.choice([8, 16, 32]), rng.randint(1, 3), 1)
            # every map that took part is frozen once it has been used as a window / handed to a bridge
            infos = list(root.memory_map.all_resources())
            starts = [i.start for i in infos]
            mon.ok("walker_all_resources_sorted", starts == sorted(starts), "all_resources() of the assembled root not ascending")
            for i, j in zip(infos, infos[1:]):
                mon.ok("walker_all_resources_disjoint", i.end <= j.start,
                       f"resources {i.path} [{i.start},{i.end}) and {j.path} [{j.start},{j.end}) overlap at the root")
            return len(infos), sorted(B.kinds)
        out = []
        mon.run(lambda: out.append(build()))
    finally:
        MemoryMap.add_resource, MemoryMap.add_window = orig_res, orig_win
    mon.count("walker_maps", len(st["maps"]))
    summary = {"kind": "hier", "root": case["root"], "max_space": case["max_space"], "stim": case["stim_seed"],
               "built": out[0] if out else None}
    return mon.result(nontrivial=len(st["maps"]) >= 3, summary=summary)


def run_case(case):
    if case.get("suite"):
        return suite_case(Mon(), ['C02'], ['C02_walks', 'refusals_seen'])
    rng = random.Random(case["stim_seed"])
    if case.get("kind") == "hier":
        return run_hier(case, rng)
    mon = Mon(trace_len=30)
    lives, models = [], []
    for k, d in enumerate(case["maps"]):
        lives.append((MemoryMap if (k == 0 or rng.random() < 0.85) else FlakyMap)(
            addr_width=spell_int(rng, d["aw"]), data_width=spell_int(rng, d["dw"]), alignment=spell_int(rng, d["al"])))
        models.append(MapModel(d["aw"], d["dw"], d["al"], label=f"M{k}"))
    by_id = {id(m): k for k, m in enumerate(lives)}
    st = {"fresh": 0, "refused_on": set(), "nontrivial": False, "objs": [], "refused_names": []}
    regs_only = case["registers_only"]

    def new_res():
        if regs_only:
            r = csr.Register({"a": csr.Field(action.R, rng.randint(1, 12))}, access="r")
        else:
            r = Res() if rng.random() < 0.85 else FalsyRes()
        st["objs"].append(r)
        return r

    def fresh_name():
        # names of refused calls are recycled: a refusal must not leave the name reserved
        if st["refused_names"] and rng.random() < 0.3:
            k_ = rng.randrange(len(st["refused_names"]))
            nm = st["refused_names"][k_]
            x_ = rng.random()
            tup = (nm,) if isinstance(nm, str) else tuple(nm)
            if x_ < 0.35:
                return tup + (rng.choice(["x", 0]),)          # an extension of the refused name (it stays in the list)
            if x_ < 0.5 and len(tup) > 1:
                return tup[:-1]                                # a prefix of it
            return st["refused_names"].pop(k_)
        st["fresh"] += 1
        return rng.choice([f"n{st['fresh']}", (f"n{st['fresh']}",), ("g", st["fresh"]), (f"n{st['fresh']}", "x")])

    def pick_addr(t):
        mm = models[t]
        top = 1 << mm.aw
        cands = [0, top, top - 1, rng.randrange(top + 2), max(0, top - rng.randrange(1, 1 << 12)),
                 max(0, top - (rng.randrange(1, 1 << 20) | 1))]
        for it in mm.items:
            cands += [it["start"], it["end"], it["start"] - 1, it["end"] - 1, it["end"] + 1,
                      max(0, it["start"] - rng.choice([1, 2, 4, 8]))]
        a = rng.choice(cands)
        if rng.random() < 0.7:
            al = rng.choice([mm.align, mm.align, rng.randint(0, 4)])
            a = a // (1 << al) * (1 << al)
        if rng.random() < 0.04:
            a = rng.choice([-1, -8, "0", 1.0, None])
        return a

    poisoned = set()     # maps holding an unequal-width window over a non-leaf map: all_resources() may assert there

    def is_poisoned(t, seen=()):
        if t in poisoned:
            return True
        return any(it["kind"] == "win" and it["child"] in models and models.index(it["child"]) not in seen and
                   is_poisoned(models.index(it["child"]), seen + (t,)) for it in models[t].items)

    def snapshot(t):
        m = lives[t]
        return (live_resources(m), live_windows(m), live_all(m) if not is_poisoned(t) else None)

    def compare_reports(t, why):
        m, mm = lives[t], models[t]
        mon.eq("reported_resources", live_resources(m), mm.expected_resources(), f"{mm.label}.resources() after {why}")
        mon.eq("reported_windows", live_windows(m), mm.expected_windows(), f"{mm.label}.windows() after {why}")
        check_invariants(mon, m, mm.label)

    def judge(t, pred, raised, rng_out, before, why, name=None):
        mm = models[t]
        if isinstance(raised, Warning):
            # warnings-as-errors shard: the library warned and the warning was raised at that statement. Whether a
            # warning is appropriate is not C02's business; that a call which raises changed nothing is
            mon.count("library_warnings_raised_as_errors")
            mon.eq("atomic", snapshot(t), before, f"{why}: raised {type(raised).__name__} but changed the query results of {mm.label}")
            return False
        if raised is not None:
            mon.ok("refusal_class", isinstance(raised, (ValueError, TypeError)),
                   f"{why}: refusal must be ValueError/TypeError, got {type(raised).__name__}: {raised}")
            mon.ok("must_accept", pred.kind != ACCEPT,
                   f"{why}: a legal implicit placement predicted at {pred.start} was refused: {raised}")
            mon.eq("atomic", snapshot(t), before, f"{why}: raised but changed the query results of {mm.label}")
            if pred.kind == REFUSE:
                mon.count("refused_calls")
                mon.bin("refusal_reasons", pred.reason)
                if mm.frozen:
                    mon.count("frozen_add")
            st["refused_on"].add(t)
            if name is not None and pred.reason not in ("bad-name", "name-conflict", "name-conflict-absorbed"):
                st["refused_names"].append(name)
            return False
        mon.ok("refusal", pred.kind != REFUSE, f"{why}: had to be refused ({pred.reason}) but returned {rng_out}")
        start, end = rng_out[0], rng_out[1]
        if pred.start is not None:
            mon.eq("placement", start, pred.start, f"{why}: start address ({pred.reason})")
        mon.ok("size", end - start >= pred.minlen,
               f"{why}: range [{start},{end}) shorter than the requested size rounded to the alignment ({pred.minlen})")
        mon.bin("accept_reasons", pred.reason)
        if pred.reason == "implicit" and t in st["refused_on"]:
            mon.count("refused_then_implicit_placement")
            st["nontrivial"] = True
        return True

    def probe(t):
        """Observe the placement cursor: align_to(0) returns it (rounded to the map alignment)."""
        pred = models[t].predict_align_to(0)
        got = lives[t].align_to(0)
        mon.eq("cursor_probe", got, pred.start, f"{models[t].label}.align_to(0) (placement cursor)")
        models[t].commit_align(got)
        if t in st["refused_on"]:
            st["nontrivial"] = True

    def step(i):
        mon.cycle = i
        t = 0 if rng.random() < 0.55 else rng.randrange(len(lives))
        m, mm = lives[t], models[t]
        op = rng.choice(["res", "res", "res", "res", "win", "win", "align", "bad", "freeze", "dup"])
        forced = bool(case.get("nested_preamble")) and i == rng_first_nested
        if forced:
            t, op = 0, "win"
            m, mm = lives[t], models[t]
        before = snapshot(t)
        if op == "res":
            r = new_res()
            top = 1 << mm.aw
            size = rng.choice([0, 1, 1, 2, 3, 4, 5, 8, 3, 7, top, top + 1, rng.randrange(top + 2),
                               max(1, top // rng.choice([2, 4, 8])), rng.randrange(1, 1 << 10)])
            if rng.random() < 0.03:
                size = rng.choice([-1, "4", 2.0, None])
            addr = pick_addr(t) if rng.random() < 0.45 else None
            al = rng.choice([None, None, None, 0, 1, 2, 3, mm.aw])
            if rng.random() < 0.03:
                al = rng.choice([-1, "1", 0.5])
            name = fresh_name() if rng.random() < 0.93 else rng.choice(sorted(mm.names, key=repr) or [("zz",)])
            why = f"{mm.label}.add_resource(size={size!r}, addr={addr!r}, alignment={al!r}, name={name!r})"
            mon.log(why)
            pred = mm.predict_add_resource(id(r), True, name, size, addr, al)
            # the same numbers as a caller may spell them (bool for 0/1, IntEnum member, int subclass)
            size, addr, al = spell_int(rng, size), spell_int(rng, addr), spell_int(rng, al)
            try:
                out, raised = m.add_resource(r, name=name, size=size, addr=addr, alignment=al), None
            except Exception as e:
                out, raised = None, e
            if judge(t, pred, raised, out, before, why, name):
                mm.commit_resource(id(r), name, out[0], out[1])
        elif op == "dup":
            res_items = [it for it in mm.items if it["kind"] == "res"]
            if not res_items:
                return
            it = rng.choice(res_items)
            r = next(o for o in st["objs"] if id(o) == it["key"])
            name = fresh_name()
            why = f"{mm.label}.add_resource(<already added>, name={name!r})"
            mon.log(why)
            pred = mm.predict_add_resource(id(r), True, name, 1, None, None)
            try:
                out, raised = m.add_resource(r, name=name, size=1), None
            except Exception as e:
                out, raised = None, e
            judge(t, pred, raised, out, before, why)
        elif op == "bad":
            kind = rng.choice(["notcomp", "badname", "notmap"])
            if kind == "notcomp":
                obj = rng.choice([object(), "reg", None, 5])
                why = f"{mm.label}.add_resource({obj!r})"
                pred = mm.predict_add_resource(id(obj), False, "q", 1, None, None)
                call = lambda: m.add_resource(obj, name=fresh_name(), size=1)
            elif kind == "badname":
                r = new_res()
                nm = rng.choice(NAMES_BAD)
                why = f"{mm.label}.add_resource(name={nm!r})"
                pred = mm.predict_add_resource(id(r), True, nm, 1, None, None)
                call = lambda: m.add_resource(r, name=nm, size=1)
            else:
                obj = rng.choice([object(), "map", None])
                why = f"{mm.label}.add_window({obj!r})"
                pred = mm.predict_add_window(id(obj), False, None, None, None, None)
                call = lambda: m.add_window(obj)
            mon.log(why)
            try:
                out, raised = call(), None
            except Exception as e:
                out, raised = None, e
            judge(t, pred, raised, out, before, why)
        elif op == "win":
            c = rng.randrange(len(lives))
            # now and then aim at a dense window over a map that itself holds a (possibly sparse) window
            nested = [k for k in range(len(lives)) if k != t and models[k].dw < mm.dw and mm.dw % models[k].dw == 0 and
                      not models[k].frozen_by_parent(mm) and any(it["kind"] == "win" for it in models[k].items)]
            aimed = bool(nested) and (forced or rng.random() < 0.35)
            if aimed:
                c = rng.choice(nested)
            else:
                # ... or at a dense window over any narrower map
                narrower = [k for k in range(len(lives)) if k != t and models[k].dw < mm.dw and mm.dw % models[k].dw == 0 and
                            not models[k].frozen_by_parent(mm)]
                if narrower and rng.random() < 0.25:
                    c = rng.choice(narrower)
                    aimed = True
            if c == t:
                return          # a map is never added to itself (outside the property's domain)
            child, cm = lives[c], models[c]
            poison = False
            if cm.dw != mm.dw and any(it["kind"] == "win" for it in cm.items):
                # A dense (or sparse) window of unequal width over a map that itself contains windows: the recursive
                # queries all_resources()/find_resource() may assert on such trees (outside C03's domain), but what C02
                # claims for dense windows - disjointness, bounds, size, reporting and failure atomicity - is judged
                # on resources()/windows() alone. Half of them are generated; the parent is then excluded from
                # all_resources() snapshots.
                if not aimed and rng.random() < 0.5:
                    mon.count("skipped_unequal_width_window_over_non_leaf_map")
                    return
                poison = True
            before_child = snapshot(c)
            child_frozen_before = cm.frozen
            name = rng.choice([None, None, fresh_name(), fresh_name()])
            if rng.random() < 0.05 and mm.names:
                name = rng.choice(sorted(mm.names, key=repr))
            sparse = rng.choice([None, None, None, True, False]) if not aimed else rng.choice([False, False, None])
            addr = None
            if rng.random() < 0.4:
                addr = pick_addr(t)
                if isinstance(addr, int) and rng.random() < 0.7:
                    addr = addr // (1 << cm.aw) * (1 << cm.aw)
            if mm.items and rng.random() < (0.5 if aimed else 0.15):
                # explicit placement so that the window's span ends at (or a few addresses into / short of) the start of
                # an existing item, or starts at the end of one
                ratio_ = mm.dw // cm.dw if (not sparse and cm.dw and mm.dw % cm.dw == 0) else 1
                span = max(1, (1 << cm.aw) // max(1, ratio_))
                it_ = rng.choice(mm.items)
                addr = rng.choice([it_["start"] - span + rng.choice([0, 1, 2, 3, ratio_ - 1, ratio_]), it_["end"] - rng.choice([0, 1, 2]),
                                   # the naturally aligned span that holds the start (or the last address) of an existing item:
                                   # the item may sit anywhere inside it, also in its last few addresses
                                   it_["start"] // span * span, (it_["end"] - 1) // span * span])
                if addr < 0:
                    addr = 0
                mon.count("abutting_explicit_window_placements")
            elif aimed and addr is None and not mm.frozen and rng.random() < 0.4:
                # implicit placement into a parent that is nearly full: first a register in the last few addresses, so that
                # the cursor is less than one window span short of the top of the map
                ratio_ = mm.dw // cm.dw if (not sparse and cm.dw and mm.dw % cm.dw == 0) else 1
                span = max(1, (1 << cm.aw) // max(1, ratio_))
                top_ = 1 << mm.aw
                d_ = min(span, rng.choice([1, 1, 2, 3, max(1, ratio_ - 1), rng.randrange(0, span)]))   # what will not fit
                a_ = max(0, top_ - span + d_ - 1) // (1 << mm.align) * (1 << mm.align)
                r_, nm_ = new_res(), fresh_name()
                p_ = mm.predict_add_resource(id(r_), True, nm_, 1, a_, None)
                b_ = snapshot(t)
                w_ = f"{mm.label}.add_resource(size=1, addr={a_}) near the top of the map"
                mon.log(w_)
                try:
                    o_, e_ = m.add_resource(r_, name=nm_, size=1, addr=a_), None
                except Exception as ex_:
                    o_, e_ = None, ex_
                mon.count("implicit_window_placements_near_the_top_of_a_map")
                if judge(t, p_, e_, o_, b_, w_):
                    mm.commit_resource(id(r_), nm_, o_[0], o_[1])
                before = snapshot(t)
            why = f"{mm.label}.add_window({cm.label}, name={name!r}, addr={addr!r}, sparse={sparse!r})"
            mon.log(why)
            pred = mm.predict_add_window(id(child), True, cm, name, addr, sparse)
            armed = isinstance(child, FlakyMap) and not cm.frozen and rng.random() < 0.5
            if armed:
                child.fail_freeze = True
            try:
                out, raised = m.add_window(child, name=name, addr=spell_int(rng, addr), sparse=spell_bool(rng, sparse)), None
            except Exception as e:
                out, raised = None, e
            if armed:
                child.fail_freeze = False
                if raised is not None:
                    # the window's own freeze() hook failed (or the call was refused before reaching it): whichever
                    # it was, a call that raised has changed neither map
                    mon.count("window_freeze_hook_failures")
                    mon.eq("atomic", snapshot(t), before, f"{why}: raised ({raised}) but changed the query results of {mm.label}")
                    mon.eq("atomic", snapshot(c), before_child, f"{why}: raised ({raised}) but changed {cm.label}")
                    return
            if judge(t, pred, raised, out, before, why, name):
                exp_ratio = 1 if sparse else mm.dw // cm.dw
                mon.eq("window_ratio", out[2], exp_ratio, f"{why}: ratio")
                mm.commit_window(id(child), cm, name, out[0], out[1], out[2])
                mon.bin("window_kinds", "sparse" if (sparse and mm.dw != cm.dw) else f"ratio{out[2]}")
                if poison:
                    poisoned.add(t)
                    mon.count("unequal_width_windows_over_non_leaf_maps")
            else:
                # half-applied check on the child: a refused add_window must not freeze or change it
                mon.eq("atomic", snapshot(c), before_child, f"{why}: raised but changed {cm.label}")
                if not child_frozen_before and rng.random() < 0.6:
                    r = new_res()
                    nm = fresh_name()
                    p2 = cm.predict_add_resource(id(r), True, nm, 1, None, None)
                    b2 = snapshot(c)
                    w2 = f"{cm.label}.add_resource(size=1) after refused add_window"
                    try:
                        o2, r2 = child.add_resource(r, name=nm, size=1), None
                    except Exception as e:
                        o2, r2 = None, e
                    mon.count("child_mutable_after_refused_add_window")
                    if judge(c, p2, r2, o2, b2, w2):
                        cm.commit_resource(id(r), nm, o2[0], o2[1])
            compare_reports(c, why)
        elif op == "align":
            al = rng.choice([0, 1, 2, 3, 4, mm.aw, mm.aw + 1, rng.randint(0, 6)])
            if rng.random() < 0.1:
                al = rng.choice([-1, "2", 1.5, None])
            why = f"{mm.label}.align_to({al!r})"
            mon.log(why)
            pred = mm.predict_align_to(al)
            try:
                out, raised = m.align_to(spell_int(rng, al)), None
            except Exception as e:
                out, raised = None, e
            if raised is not None:
                mon.ok("refusal", pred.kind == REFUSE, f"{why} raised {raised!r}")
                mon.ok("refusal_class", isinstance(raised, (ValueError, TypeError)), f"{why}: {raised!r}")
                mon.eq("atomic", snapshot(t), before, f"{why}: raised but changed query results")
                st["refused_on"].add(t)
            else:
                mon.ok("refusal", pred.kind != REFUSE, f"{why} had to be refused but returned {out}")
                mon.eq("align_to", out, pred.start, why)
                mm.commit_align(out)
        elif op == "freeze":
            how = rng.choice(["freeze", "bridge", "periph"])
            if rng.random() < 0.6:
                return
            if how == "bridge":
                if not regs_only or any(it["kind"] == "win" for it in mm.items):
                    return
                csr.Bridge(m)
            elif how == "periph":
                PeripheralInfo(memory_map=m)
            else:
                m.freeze()
            mon.log(f"{mm.label} frozen via {how}")
            mon.bin("frozen_via", how)
            mm.frozen = True
        compare_reports(t, "step %d" % i)
        if rng.random() < 0.35 or t in st["refused_on"] and rng.random() < 0.5:
            probe(t)

    rng_first_nested = rng.randint(0, 3)

    def preamble():
        leaf, mid = 2, 1
        r = new_res()
        nm = fresh_name()
        out = lives[leaf].add_resource(r, name=nm, size=rng.choice([1, 2]))
        models[leaf].commit_resource(id(r), nm, out[0], out[1])
        out = lives[mid].add_window(lives[leaf], sparse=True)
        models[mid].commit_window(id(lives[leaf]), models[leaf], None, out[0], out[1], out[2])
        mon.count("width_converting_hierarchies_prepared")

    def history():
        if case.get("nested_preamble"):
            preamble()
        for i in range(case["steps"]):
            step(i)
            if rng.random() < 0.08:
                # a listing abandoned part-way (or two in flight at once) must not change what later listings report
                t_ = rng.randrange(len(lives))
                qs = [lives[t_].resources, lives[t_].windows, lives[t_].window_patterns]
                if not is_poisoned(t_):
                    qs.append(lives[t_].all_resources)
                for q in qs:
                    next(iter(q()), None)
                    for _x, _y in zip(q(), q()):
                        break
                mon.count("partially_consumed_listings")
        for t in range(len(lives)):
            probe(t)
            compare_reports(t, "end of history")

    mon.run(history)
    mon.count("calls", mon.cycle + 1)
    summary = {"maps": case["maps"], "steps": case["steps"], "registers_only": regs_only, "stim": case["stim_seed"],
               "history_tail": list(mon.trace)[-6:]}
    return mon.result(nontrivial=st["nontrivial"], summary=summary)


LEVEL_TEXT = ("Recording proxy + reference allocator model over random API call histories on live MemoryMap objects: "
              "every return value, every query result and the placement cursor are compared with the model after every "
              "call, and structural invariants are re-walked. Held on the histories explored.")
LEVEL_NOTE = ("Trusted: CPython and the reference allocator model. Not asserted: acceptance of explicit addresses (only "
              "'honoured exactly or rejected'), numeric alignment of dense ratio>1 windows.")
TECHNIQUE = "runtime monitoring: API history recorder + executable reference model + invariant walker after every call"
DESIGN_REF = "DESIGN.md section 4, C02"
