# amaranth: UnusedElaboratable=no
"""C19 - every accepted component elaborates, terminates, and does so repeatably.

For every component class, generated well-typed parameters (including semantically invalid combinations
that must be refused, unaligned layouts x every shadow-sharing limit, names with integer parts, field
paths through lists, zero widths):
  * construction and every elaborate() run under the exception-class, explicit-raise and step-count
    sanitizers (vmon/sanitize.py);
  * each accepted instance is converted to RTLIL two to three times, interleaved with a short
    simulation (simulate-then-synthesise and the reverse); all RTLIL texts must be identical;
  * memory-map / event-map metadata snapshots before and after must be identical.
"""
import copy
import random

from vmon import env  # noqa: F401
from vmon.suitemon import suite_case
from vmon.simkit import Top, Mon, spell_features, new_map
from vmon.sanitize import StepCounter, StepBound, judge_exception
from vmon.models.csrmux import f3_unsatisfiable
from vmon.models.memmap import live_all, live_windows, live_resources
from vmon.work import mux as muxwork
from vmon.props import c11 as c11mod

from amaranth import Signal, Value, unsigned, signed
from amaranth.back import rtlil
from amaranth.hdl import Fragment
from amaranth.lib import wiring
from amaranth.sim import Simulator

from amaranth_soc import csr, event, gpio, wishbone
from amaranth_soc.csr import action
from amaranth_soc.csr.wishbone import WishboneCSRBridge
from amaranth_soc.csr.event import EventMonitor
from amaranth_soc.memory import MemoryMap
from amaranth_soc.wishbone.sram import WishboneSRAM

ID = "C19"
RULE = ("cases = one component instance per case, class cycling over {multiplexer, csr decoder, wishbone decoder, "
        "arbiter, SRAM, wishbone-CSR bridge, register bridge over a Builder map, register, field action, event monitor, "
        "CSR event monitor, GPIO} with generated well-typed parameters (valid and must-be-refused); each accepted instance "
        "is elaborated 2-3 times (RTLIL) interleaved with a simulation, under exception-class / explicit-raise / "
        "step-count sanitizers; distinct = distinct class+parameters; non-trivial = accepted instance whose RTLIL is "
        "longer than 20 lines and was produced at least twice, or a refused construction judged by the explicit-raise "
        "sanitizer")
ASSUMPTIONS = ["RTLIL text equality is the criterion for 'the same hardware' (Amaranth's RTLIL back end is deterministic)",
               "a refusal is intended iff a raise statement of the matching class covers the failing line",
               "step bound 2e6 repository function entries per elaboration"]
REQUIRED = ["constructed", "refusal_judged", "elaborations", "rtlil_identical", "metadata_unchanged", "sim_then_synth"]

KINDS = ["mux", "csrdec", "wbdec", "arb", "sram", "wbbridge", "regbridge", "register", "action", "evmon",
         "csrevmon", "gpio", "soc"]
ELAB_STEP_LIMIT = 2_000_000


def n_cases(tier):
    return 960 if tier == "quick" else 12000


def gen_case(rng, tier, idx):
    if idx == 0:
        return {"suite": True}     # the repository\'s own test-suite under the monitors (vmon/suitemon.py)
    kind = KINDS[idx % len(KINDS)]
    case = {"kind": kind, "order": rng.choice(["rr", "rsr", "srr", "rrs"])}
    if kind == "mux":
        case["layout"] = muxwork.gen_layout(rng, tier)
        if rng.random() < 0.5:
            # crowded layouts: many small registers of one-sided access, unaligned, so that shadow chunks are shared
            # by several registers and the sharing limit actually shapes the hardware
            lay = case["layout"]
            lay.update(aw=rng.choice([4, 5, 6]), dw=rng.choice([4, 8]), al=0)
            lay["regs"] = [{"width": rng.choice([1, lay["dw"], lay["dw"] + 1, 2 * lay["dw"], 3 * lay["dw"]]),
                            "access": rng.choice(["w", "w", "w", "r", "rw"]),
                            "place": rng.choice(["implicit", "unaligned", "unaligned"]),
                            "addr_r": rng.random(), "extra": 0, "alignment": None} for _ in range(rng.randint(4, 9))]
        elif rng.random() < 0.2:
            # huge, sparsely populated address space: a few registers at block-aligned addresses far apart
            lay = case["layout"]
            aw = rng.choice([20, 24, 32, 40, 48])
            lay.update(aw=aw, dw=rng.choice([8, 32]), al=0, overlaps=rng.choice([0, 0, 1, None]))
            blocks = [0, 1 << (aw - 1), 1 << (aw - 2), 3 << (aw - 2), (1 << aw) - 16, 1 << (aw // 2)]
            lay["regs"] = [{"width": rng.choice([1, lay["dw"], 2 * lay["dw"]]), "access": rng.choice(["rw", "rw", "r", "w"]),
                            "place": "absolute", "addr_abs": rng.choice(blocks) + rng.choice([0, 0, 1, 2, 4]),
                            "addr_r": 0.0, "extra": 0, "alignment": None} for _ in range(rng.randint(2, 5))]
    elif kind == "soc":
        lay = muxwork.gen_layout(rng, tier)
        lay.update(aw=rng.choice([2, 3, 4]), dw=rng.choice([8, 16]), al=0, overlaps=rng.choice([None, 0, 0, 1]))
        lay["regs"] = [{"width": rng.choice([1, lay["dw"], 2 * lay["dw"]]), "access": rng.choice(["rw", "rw", "r", "w"]),
                        "place": rng.choice(["implicit", "implicit", "unaligned"]), "addr_r": rng.random(), "extra": 0,
                        "alignment": None} for _ in range(rng.randint(1, 4))]
        case["layout"] = lay
        case["copies"] = rng.choice([2, 2, 3])
    elif kind == "register":
        case["reg"] = c11mod.gen_case(rng, tier, rng.randrange(1000))
    # a second instance elaborated between two elaborations of the judged one: identical parameters, the same
    # parameters with one of them varied (the sharing limit, for multiplexers), or unrelated parameters
    case["mid_elab_after"] = rng.choice([None, None, 1, 2, 3, 4])
    case["twin"] = rng.choice([None, None, "same", "variant", "variant", "other"])
    case["twin_overlaps"] = rng.choice([None, 0, 0, 1, 2])
    return case


# --------------------------------------------------------------------------------------- builders
# Each builder returns (component, [extra interfaces whose signals are ports], metadata_fn, params summary,
# expected_finding or None). It may raise: the caller judges the exception.

def all_signals(obj):
    sigs = []
    if isinstance(obj, Signal):
        return [obj]
    sig = getattr(obj, "signature", None)
    if sig is not None:
        for _path, _member, value in sig.flatten(obj):
            try:
                sigs.append(Value.cast(value))
            except Exception:
                pass
    return [s for s in sigs if isinstance(s, Signal)]


def map_meta(m):
    # align_to(0) returns the placement cursor (rounded to the map alignment) without observable effect
    return (live_all(m), live_windows(m), live_resources(m), m.addr_width, m.data_width, m.alignment, m.align_to(0),
            [(tuple(w[2]), w[1]) for w in m.window_patterns()])


def b_mux(case, rng, P):
    layout = case["layout"]
    mm, _skipped = muxwork.build_map(layout)
    res = list(mm.resources())
    rr = [(s, e) for p, _n, (s, e) in res if p.element.access.readable()]
    rw = [(s, e) for p, _n, (s, e) in res if p.element.access.writable()]
    P.update(aw=layout["aw"], dw=layout["dw"], al=layout["al"], overlaps=layout["overlaps"],
             regs=[(s, e, p.element.width, p.element.access.value) for p, _n, (s, e) in res])
    finding = None
    if f3_unsatisfiable(rr, layout["overlaps"]) or f3_unsatisfiable(rw, layout["overlaps"]):
        finding = "F3"
    dut = csr.Multiplexer(mm, shadow_overlaps=layout["overlaps"])
    return dut, [p.element for p, _n, _r in res], lambda: map_meta(dut.bus.memory_map), finding


def b_soc(case, rng, P):
    """Several peripherals of identical layout (separate Multiplexer instances) behind one csr.Decoder: instances must
    not share hardware through anything kept at class or module level."""
    layout = case["layout"]
    dec = csr.Decoder(addr_width=layout["aw"] + 3, data_width=layout["dw"])
    muxes, elements = [], []
    for k in range(case["copies"]):
        mm, _sk = muxwork.build_map(layout)
        res = list(mm.resources())
        for acc in ("readable", "writable"):
            if f3_unsatisfiable([(s, e) for p, _n, (s, e) in res if getattr(p.element.access, acc)()], layout["overlaps"]):
                layout = dict(layout, overlaps=None)
        mux = csr.Multiplexer(mm, shadow_overlaps=layout["overlaps"])
        dec.add(mux.bus, name=f"periph{k}")
        muxes.append(mux)
        elements += [p.element for p, _n, _r in res]
    P.update(aw=layout["aw"], dw=layout["dw"], overlaps=layout["overlaps"], copies=case["copies"],
             regs=[(r["width"], r["access"], r["place"]) for r in layout["regs"]])

    class Soc(wiring.Component):
        def __init__(self):
            super().__init__({})
            self.bus = dec.bus

        def elaborate(self, platform):
            from amaranth import Module
            m = Module()
            m.submodules.dec = dec
            for k, mux in enumerate(muxes):
                m.submodules[f"mux{k}"] = mux
            return m

    return Soc(), [dec.bus] + elements, lambda: map_meta(dec.bus.memory_map), None


_SPELL = {"rng": None}


def I(n):
    """An integer parameter as the caller may spell it (bool for 0/1, IntEnum member, int subclass): the component
    has to be built (and then behave as for the plain int) or be refused descriptively."""
    from vmon.simkit import spell_int
    return spell_int(_SPELL["rng"], n, p=0.06) if _SPELL["rng"] is not None else n


class Pair(wiring.Component):
    """The judged component next to a second one of its class that took over what the first refused: a refused
    add() must leave nothing behind in the component that refused it (the interface is free to go elsewhere)."""
    def __init__(self, first, second):
        super().__init__({})
        self.first, self.second = first, second

    def elaborate(self, platform):
        from amaranth import Module
        m = Module()
        m.submodules.first = self.first
        m.submodules.second = self.second
        return m


def fallback(rng, P, first, refused, make_second, meta_first):
    """-> (component, extra port interfaces, meta_fn) with the refused interfaces re-homed on a second component."""
    if not refused or rng.random() < 0.3:
        return first, [], meta_first
    second = make_second()
    taken = []
    for r in refused:
        try:
            (second.add(r, name=f"fb{len(taken)}") if hasattr(r, "memory_map") else second.add(r))
            taken.append(r)
        except (ValueError, TypeError):
            pass
    if not taken:
        return first, [], meta_first
    P["refused_rehomed"] = len(taken)
    sec_meta = (lambda: map_meta(second.bus.memory_map)) if hasattr(second.bus, "memory_map") and taken and \
        hasattr(taken[0], "memory_map") else (lambda: None)
    return Pair(first, second), [first.bus, second.bus] + taken, lambda: (meta_first(), sec_meta())


def b_csrdec(case, rng, P):
    aw, dw = rng.randint(1, 10), rng.choice([1, 8, 16, 32])
    al = rng.choice([0, 0, 1, 2, 5])
    P.update(aw=aw, dw=dw, al=al, subs=[])
    dec = csr.Decoder(addr_width=I(aw), data_width=I(dw), alignment=I(al))
    subs, refused = [], []
    for i in range(rng.randint(0, 5)):
        k = rng.randint(1, aw)
        sdw = dw if rng.random() < 0.9 else rng.choice([8, 16])
        sub = csr.Interface(addr_width=I(k), data_width=I(sdw), path=(f"s{i}",))
        sub.memory_map = new_map(addr_width=k, data_width=sdw)
        P["subs"].append((k, sdw))
        try:
            dec.add(sub, name=rng.choice([None, f"w{i}", ("w", i)]),
                    addr=None if rng.random() < 0.6 else rng.randrange(1 << aw) // (1 << k) * (1 << k))
            subs.append(sub)
            mid_elaboration(case, P, dec, len(subs))
            late_resource(rng, P, f"s{i}", sub.memory_map)
        except (ValueError, TypeError) as e:
            P.setdefault("refused_adds", []).append(judge_exception(e))
            refused.append(sub)
    comp, more, meta = fallback(rng, P, dec, refused, lambda: csr.Decoder(addr_width=aw + 4, data_width=dw),
                                lambda: map_meta(dec.bus.memory_map))
    return comp, subs + more, meta, None


def b_wbdec(case, rng, P):
    dw = rng.choice([8, 16, 32, 64])
    gran = rng.choice([g for g in (8, 16, 32, 64) if g <= dw])
    gbits = (dw // gran).bit_length() - 1
    aw = rng.choice([0, 0, 1, 2, 4, 8, 12])
    feats = {f for f in ("err", "rty", "stall", "lock", "cti", "bte") if rng.random() < 0.4}
    P.update(aw=aw, dw=dw, gran=gran, features=sorted(feats), subs=[])
    dec = wishbone.Decoder(addr_width=I(aw), data_width=I(dw), granularity=I(gran), features=spell_features(rng, feats),
                           alignment=rng.choice([0, 0, 2]))
    map_aw = max(1, aw + gbits)
    subs, refused = [], []
    for i in range(rng.randint(0, 4)):
        sparse = rng.random() < 0.3 and gbits > 0
        if sparse:
            sdw = sgran = gran
            saw = rng.randint(gbits, max(gbits, map_aw))
        else:
            sdw, sgran = dw, gran
            saw = rng.randint(0, max(0, aw))
        sfeat = {f for f in ("err", "rty", "stall", "lock", "cti", "bte") if rng.random() < 0.4}
        if rng.random() < 0.85:
            sfeat -= {"err", "rty", "stall"} - feats
        sub = wishbone.Interface(addr_width=I(saw), data_width=I(sdw), granularity=I(sgran), features=sfeat, path=(f"s{i}",))
        smap_aw = max(1, saw + ((sdw // sgran).bit_length() - 1))
        sub.memory_map = new_map(addr_width=smap_aw, data_width=sgran)
        P["subs"].append((saw, sdw, sgran, sparse, sorted(sfeat)))
        try:
            dec.add(sub, name=rng.choice([None, f"w{i}"]), sparse=sparse)
            subs.append(sub)
            mid_elaboration(case, P, dec, len(subs))
            late_resource(rng, P, f"s{i}", sub.memory_map, csr_map=False)
        except (ValueError, TypeError) as e:
            P.setdefault("refused_adds", []).append(judge_exception(e))
            refused.append(sub)
    comp, more, meta = fallback(rng, P, dec, refused,
                                lambda: wishbone.Decoder(addr_width=aw + 4, data_width=dw, granularity=gran,
                                                         features={"err", "rty", "stall"}),
                                lambda: map_meta(dec.bus.memory_map))
    return comp, subs + more, meta, None


def b_arb(case, rng, P):
    dw = rng.choice([8, 16, 32, 64])
    gran = rng.choice([g for g in (8, 16, 32, 64) if g <= dw])
    aw = rng.choice([0, 1, 4, 16, 30])
    feats = {f for f in ("err", "rty", "stall", "lock", "cti", "bte") if rng.random() < 0.4}
    P.update(aw=aw, dw=dw, gran=gran, features=sorted(feats), intrs=[])
    arb = wishbone.Arbiter(addr_width=I(aw), data_width=I(dw), granularity=I(gran), features=spell_features(rng, feats))
    intrs, refused = [], []
    for i in range(rng.randint(0, 5)):
        ig = rng.choice([g for g in (8, 16, 32, 64) if g <= dw])
        ifeat = {f for f in ("err", "rty", "stall", "lock", "cti", "bte") if rng.random() < 0.5}
        if rng.random() < 0.8:
            ifeat |= feats & {"err", "rty"}
            ig = max(ig, gran)
        ib = wishbone.Interface(addr_width=aw if rng.random() < 0.9 else aw + 1, data_width=I(dw), granularity=I(ig),
                                features=ifeat, path=(f"i{i}",))
        P["intrs"].append((ig, sorted(ifeat)))
        try:
            arb.add(ib)
            intrs.append(ib)
            mid_elaboration(case, P, arb, len(intrs))
        except (ValueError, TypeError) as e:
            P.setdefault("refused_adds", []).append(judge_exception(e))
            refused.append(ib)
    comp, more, meta = fallback(rng, P, arb, refused,
                                lambda: wishbone.Arbiter(addr_width=aw, data_width=dw, granularity=min(8, gran), features=()),
                                lambda: None)
    return comp, intrs + more, meta, None


def b_sram(case, rng, P):
    dw = rng.choice([8, 16, 32, 64])
    gran = rng.choice([8, 16, 32, 64]) if rng.random() < 0.2 else rng.choice([g for g in (8, 16, 32, 64) if g <= dw])
    size = rng.choice([1, 2, 4, 8, 16, 64, 256, 3])
    depth = max(1, size * gran // dw)
    init = [rng.getrandbits(dw) for _ in range(rng.choice([0, depth, depth + 1 if rng.random() < 0.1 else depth]))]
    P.update(size=size, dw=dw, gran=gran, init_len=len(init))
    dut = WishboneSRAM(size=I(size), data_width=I(dw), granularity=I(gran), writable=rng.random() < 0.7, init=init)
    return dut, [], lambda: map_meta(dut.wb_bus.memory_map), None


def b_wbbridge(case, rng, P):
    cdw = rng.choice([8, 16, 32, 64, 24])
    wdw = rng.choice([None, 8, 16, 32, 64])
    caw = rng.randint(1, 10)
    P.update(cdw=cdw, wdw=wdw, caw=caw)
    cb = csr.Interface(addr_width=I(caw), data_width=I(cdw), path=("csr",))
    cb.memory_map = new_map(addr_width=caw, data_width=cdw)
    dut = WishboneCSRBridge(cb, data_width=I(wdw), name=rng.choice([None, "csr", ("csr", 0)]))
    late_resource(rng, P, "csr side of the bridge", cb.memory_map)
    return dut, [cb], lambda: map_meta(dut.wb_bus.memory_map), None


def b_regbridge(case, rng, P):
    dw = rng.choice([8, 16, 32])
    aw = rng.randint(2, 10)
    b = csr.Builder(addr_width=aw, data_width=dw, granularity=rng.choice([8, dw]) if dw % 8 == 0 else dw)
    hist = []
    # names that are legal and distinct for the memory map but look alike once formatted (an integer index next to
    # the same digits as a string, a part containing the separator, the names the bridge uses for its own parts)
    tricky = rng.random() < 0.3
    P["tricky_names"] = tricky

    def add(depth):
        for _ in range(rng.randint(1, 3)):
            x = rng.random()
            if depth < 3 and x < 0.25:
                nm = rng.choice(["blk", "grp"]) + str(len(hist)) if not tricky else rng.choice(["ch", "ch__1", "a", "a__b", "1"])
                hist.append(("cluster", nm))
                with b.Cluster(nm):
                    add(depth + 1)
            elif depth < 3 and x < 0.5:
                i = rng.randint(0, 3)
                hist.append(("index", i))
                with b.Cluster("arr" + str(len(hist)) if not tricky else rng.choice(["ch", "a"])):
                    with b.Index(i):
                        add(depth + 1)
            else:
                w = rng.randint(1, 3 * dw)
                kind = rng.choice([action.RW, action.R, action.W, action.RW1C])
                acc = {"R": "r", "W": "w"}.get(kind.__name__, "rw")
                reg = csr.Register({"f": csr.Field(kind, w)}, access=acc)
                hist.append(("reg", w, kind.__name__))
                name = f"r{len(hist)}" if not tricky else rng.choice(["x", "mux", "bus", "b__x", "1__x", "1", "ch__1", "b",
                                                                                "ch__1__1", "1__1", "x__1", "b__x__1", "x__2", "mux__1"])
                try:
                    b.add(name, reg)
                except ValueError as e:
                    if not tricky:
                        raise
                    P.setdefault("refused_adds", []).append(judge_exception(e))

    def trio():
        # a look-alike pair plus the register whose own name is what a de-duplicated look-alike would be called
        base = rng.choice([("ch", "1"), ("a", "x")])
        steps = [("top", f"{base[0]}__{base[1]}"), ("cluster",) + base, ("top", f"{base[0]}__{base[1]}__1")]
        rng.shuffle(steps)
        for st_ in steps:
            reg = csr.Register({"f": csr.Field(action.RW, rng.randint(1, dw))}, access="rw")
            try:
                if st_[0] == "top":
                    b.add(st_[1], reg)
                else:
                    with b.Cluster(st_[1]):
                        b.add(st_[2], reg)
                hist.append(("trio",) + st_)
            except ValueError as e:
                P.setdefault("refused_adds", []).append(judge_exception(e))

    if tricky and rng.random() < 0.4:
        trio()
    add(0)
    P.update(aw=aw, dw=dw, history=hist[:20])
    mm = b.as_memory_map()
    dut = csr.Bridge(mm)
    return dut, [], lambda: map_meta(dut.bus.memory_map), None


def b_register(case, rng, P):
    rc = case["reg"]
    P.update(access=rc["access"], top_kind=rc["top_kind"],
             leaves=[(list(p), l[1], l[2]) for p, l in c11mod.flatten(rc["tree"])][:16])
    fields = c11mod.to_fields(rc["tree"])
    if rc["top_kind"] == "annot":
        cls = type("AnnReg", (csr.Register,), {"__annotations__": dict(fields)}, access=rc["access"])
        reg = cls()
    else:
        reg = csr.Register(fields, access=rc["access"])
    return reg, [], lambda: None, None


def b_action(case, rng, P):
    name = rng.choice(["R", "W", "RW", "RW1C", "RW1S", "ResRAW0", "ResRAWL", "ResR0WA", "ResR0W0"])
    x = rng.random()
    shape = unsigned(rng.randint(0, 12)) if x < 0.5 else signed(rng.randint(1, 9)) if x < 0.75 else c11mod.EA
    P.update(action=name, shape=repr(shape))
    cls = getattr(action, name)
    if name in ("RW", "RW1C", "RW1S") and rng.random() < 0.6 and shape is not c11mod.EA:
        w = shape.width
        init = rng.getrandbits(w) if w and not shape.signed else 0
        P["init"] = init
        return cls(shape, init=init), [], lambda: None, None
    return cls(shape), [], lambda: None, None


def mid_elaboration(case, P, comp, n_added):
    """Bring-up: the component is elaborated (and thrown away) when only some of its subordinates / initiators are
    attached; more are added afterwards. The finished instance must be the hardware a never-elaborated instance
    of the same configuration is (compared in run_case)."""
    if case.get("mid_elab_after") == n_added:
        try:
            Fragment.get(Top({"bringup": comp}), None)
            P["mid_elaborated_after"] = n_added
        except Exception:
            pass


class LateRes(wiring.Component):
    def __init__(self):
        super().__init__({})


def late(rng, P, what, fn, p=0.4):
    """A mutation attempted after the component that consumed the object exists (a source added to the event map of
    a built monitor, a resource added to the memory map a bridge or decoder already took): it is either refused
    descriptively, or accepted - and then the component still has to elaborate."""
    if rng.random() >= p:
        return
    try:
        fn()
        P.setdefault("late_accepted", []).append(what)
    except (ValueError, TypeError) as e:
        P.setdefault("refused_adds", []).append(judge_exception(e))
        P["late_refused"] = P.get("late_refused", 0) + 1


def late_resource(rng, P, what, mm, csr_map=True):
    # on a CSR map the late resource is a well-formed register (anything else is not a register layout at all and
    # outside the property's domain); a Wishbone-side map takes any component
    res = muxwork.Probe(rng.choice([1, mm.data_width]), rng.choice(["r", "w", "rw"])) if csr_map else LateRes()
    late(rng, P, what, lambda: mm.add_resource(res, name=("late", what), size=1))


def mk_event_map(rng, P):
    n = rng.choice([0, 1, 2, 5, 9, 17])
    trig = [rng.choice(["level", "rise", "fall"]) for _ in range(n)]
    P.update(n=n, triggers=trig)
    srcs = [event.Source(trigger=t, path=(f"s{i}",)) for i, t in enumerate(trig)]
    em = event.EventMap()
    for s in srcs:
        em.add(s)
        if rng.random() < 0.2:
            em.add(rng.choice(srcs[:srcs.index(s) + 1]))     # a source added again is ignored
    return em, srcs


def ev_meta(em):
    return [(id(s), i) for s, i in em.sources()], em.size


def b_evmon(case, rng, P):
    em, srcs = mk_event_map(rng, P)
    dut = event.Monitor(em, trigger=rng.choice(["level", "rise", "fall"]))
    late(rng, P, "event source", lambda: em.add(event.Source(trigger=rng.choice(["level", "rise"]), path=("late",))))
    return dut, srcs, lambda: ev_meta(em), None


def b_csrevmon(case, rng, P):
    em, srcs = mk_event_map(rng, P)
    dw = rng.choice([8, 16, 32, 5])
    al = rng.choice([0, 0, 1, 3])
    P.update(dw=dw, al=al)
    dut = EventMonitor(em, trigger=rng.choice(["level", "rise"]), data_width=I(dw), alignment=I(al))
    late(rng, P, "event source", lambda: em.add(event.Source(trigger=rng.choice(["level", "rise"]), path=("late",))))
    late_resource(rng, P, "evmon", dut.bus.memory_map)
    return dut, srcs, lambda: (ev_meta(em), map_meta(dut.bus.memory_map)), None


def b_gpio(case, rng, P):
    pins = rng.choice([1, 2, 7, 8, 9, 16, 33])
    dw = rng.choice([8, 16, 32])
    aw = rng.choice([2, 3, 4, 5, 6, 8])
    stages = rng.choice([0, 1, 2, 3])
    P.update(pins=pins, dw=dw, aw=aw, stages=stages)
    dut = gpio.Peripheral(pin_count=I(pins), addr_width=I(aw), data_width=I(dw), input_stages=I(stages))
    late_resource(rng, P, "gpio", dut.bus.memory_map)
    return dut, [], lambda: map_meta(dut.bus.memory_map), None


BUILDERS = {"soc": b_soc, "mux": b_mux, "csrdec": b_csrdec, "wbdec": b_wbdec, "arb": b_arb, "sram": b_sram, "wbbridge": b_wbbridge,
            "regbridge": b_regbridge, "register": b_register, "action": b_action, "evmon": b_evmon,
            "csrevmon": b_csrevmon, "gpio": b_gpio}


def build_twin(case, mon):
    """Another instance of the same component class, elaborated between two elaborations of the judged instance.
    Nothing about the twin is judged here (it is a case of its own elsewhere); whatever it raises is only counted."""
    how = case.get("twin")
    if how is None:
        return None
    tcase = copy.deepcopy(case)
    if how == "variant" and "layout" in tcase:
        tcase["layout"]["overlaps"] = case["twin_overlaps"]
    trng = random.Random(case["stim_seed"] + (":twin" if how == "other" else ""))
    try:
        tdut, textra, _meta, _finding = BUILDERS[case["kind"]](tcase, trng, {})
    except Exception:
        mon.count("twin_refused")
        return None
    tports = []
    for obj in [tdut] + list(textra):
        for s in all_signals(obj):
            if not any(s is p for p in tports):
                tports.append(s)
    mon.bin("twin", how)
    return Top({"dut": tdut}), tports


def elaborate_twin(twin, mon):
    try:
        rtlil.convert(twin[0], ports=twin[1], emit_src=False)
        mon.count("twin_elaborated_in_between")
    except Exception:
        mon.count("twin_refused")


def run_case(case):
    if case.get("suite"):
        return suite_case(Mon(), ['C19'], ['C19_designs_elaborated_twice_before_simulation'])
    rng = random.Random(case["stim_seed"])
    mon = Mon()
    kind = case["kind"]
    P = {"kind": kind}
    mon.bin("kinds", kind)

    def internal(stage, exc, finding):
        verdict, info = judge_exception(exc)
        mech = f"{kind}:{stage}:{info['raised']}:{info['where']}"
        if finding == "F3" and isinstance(exc, RecursionError) and "Multiplexer._Shadow" in info["where"]:
            mech = "F3:csr.Multiplexer:shadow_overlaps-unsatisfiable:prepare-never-terminates"
        if finding == "F4" and info["raised"] == "SyntaxError" and "Decoder.elaborate" in info["where"]:
            mech = "F4:wishbone.Decoder:addr_width=0,data_width==granularity:pattern-wider-than-adr"
        mon.counters["internal_error_checks"] += 1
        mon.violations.append({"monitor": f"{stage}_internal_error", "mechanism": mech,
                               "msg": f"{kind} {stage}: {info['raised']}: {info['message']} @ {info['where']} "
                                      f"({info.get('why', 'not an intended refusal')})",
                               "detail": {"info": info, "params": P,
                                          "traceback": __import__("traceback").format_exception(exc)[-8:]}})

    # ---------------- construction
    finding = None
    _SPELL["rng"] = random.Random(case["stim_seed"] + ":spell")
    try:
        with StepCounter(200_000) as sc:
            dut, extra, meta_fn, finding = BUILDERS[kind](case, rng, P)
        mon.count("constructed")
        mon.count("refused_interfaces_rehomed", P.get("refused_rehomed", 0))
        mon.count("late_mutations_refused", P.pop("late_refused", 0))
        mon.count("late_mutations_accepted", len(P.get("late_accepted", [])))
        mon.count("construct_steps", sc.steps)
    except Exception as e:
        verdict, info = judge_exception(e)
        mon.count("refusal_judged")
        mon.bin("refusal_sites", info["where"])
        if verdict == "internal":
            internal("construct", e, None)
        P["refused"] = f"{info['raised']}: {info['message'][:120]}"
        return mon.result(nontrivial=verdict == "refusal", summary=P)
    for verdict, info in P.pop("refused_adds", []):
        mon.count("refusal_judged")
        mon.bin("refusal_sites", info["where"])
        if verdict == "internal":
            mon.violations.append({"monitor": "add_internal_error", "mechanism": f"{kind}:add:{info['raised']}:{info['where']}",
                                   "msg": f"{kind}.add(): {info['raised']}: {info['message']} ({info.get('why')})",
                                   "detail": {"info": info, "params": P}})
    if mon.violations:
        return mon.result(summary=P)

    env_rng = random.Random(case["stim_seed"] + ":usage")
    if env_rng.random() < 0.15 and not isinstance(dut, Pair):
        # a project's own subclass that extends what the library class elaborates to (one more statement in the module
        # super().elaborate() returns): every elaboration must hand out a module that can still be extended
        base_cls = type(dut)
        extra_sig = Signal(name="vmon_ext")

        def ext_elaborate(self, platform, _base=base_cls, _sig=extra_sig):
            m = _base.elaborate(self, platform)
            from amaranth import Module as _Module
            if isinstance(m, _Module):
                m.d.comb += _sig.eq(1)
            return m
        try:
            dut.__class__ = type("Project" + base_cls.__name__, (base_cls,), {"elaborate": ext_elaborate})
            mon.count("instances_of_an_extending_subclass")
            P["extended_subclass"] = True
        except TypeError:
            pass
    if env_rng.random() < 0.12:
        # an elaboration that got no further than the component's own elaborate() (the user called it directly, or
        # something else in the design failed afterwards); the instance is then elaborated normally
        try:
            dut.elaborate(None)
            mon.count("interrupted_elaborations")
        except (ValueError, TypeError):
            pass
    top = Top({"dut": dut})
    ports = []
    for obj in [dut] + list(extra):
        for s in all_signals(obj):
            if not any(s is p for p in ports):
                ports.append(s)
    meta0 = meta_fn()
    texts = []
    refused_steps = []
    order = case["order"]
    twin = build_twin(case, mon)
    for step, op in enumerate(order):
        if step == 1 and twin is not None:
            elaborate_twin(twin, mon)
        try:
            with StepCounter(ELAB_STEP_LIMIT) as sc:
                if op == "r":
                    texts.append(rtlil.convert(top, ports=ports, emit_src=False))
                    mon.count("elaborations")
                else:
                    sim = Simulator(top)
                    sim.add_clock(1e-6)

                    async def tb(ctx):
                        for _ in range(3):
                            await ctx.tick()

                    sim.add_testbench(tb)
                    sim.run()
                    mon.count("elaborations")
                    mon.count("simulations")
                    if "r" in order[step + 1:]:
                        mon.count("sim_then_synth")
                    if "r" in order[:step]:
                        mon.count("synth_then_sim")
            mon.count("elaborate_steps", sc.steps)
            for q, n in sc.reach.items():
                if q.endswith(".elaborate") or q.endswith("_Shadow.prepare"):
                    mon.bin("anchors_reached", q)
        except Exception as e:
            verdict, info = judge_exception(e)
            P["order"] = order
            if verdict == "refusal":
                # refused at elaboration with an intended, descriptive ValueError/TypeError: allowed by the
                # property, provided it is repeatable (an instance refused once is refused every time)
                mon.count("refused_at_elaboration")
                mon.bin("refusal_sites", info["where"])
                refused_steps.append(step)
                continue
            internal(f"elaboration#{step + 1}", e, finding)
            return mon.result(summary=P)
    if refused_steps:
        mon.counters["refusal_repeatable"] += 1
        if len(refused_steps) != len(order):
            mon.violations.append({"monitor": "refusal_repeatable", "mechanism": f"{kind}:refusal-not-repeatable",
                                   "msg": f"{kind}: elaborations {refused_steps} of {order!r} were refused but the others "
                                          f"succeeded", "detail": {"params": P}})
        P["refused_at_elaboration"] = True
        return mon.result(nontrivial=True, summary=P)
    for i in range(1, len(texts)):
        mon.counters["rtlil_identical"] += 1
        if texts[i] != texts[0]:
            a, b = texts[0].splitlines(), texts[i].splitlines()
            diff = next((k for k, (x, y) in enumerate(zip(a, b)) if x != y), min(len(a), len(b)))
            mon.violations.append({"monitor": "rtlil_identical", "mechanism": f"{kind}:rtlil-differs",
                                   "msg": f"{kind}: RTLIL of elaboration {i + 1} differs from elaboration 1 at line {diff}: "
                                          f"{a[diff] if diff < len(a) else '<eof>'!r} vs {b[diff] if diff < len(b) else '<eof>'!r}",
                                   "detail": {"params": P}})
            break
    if P.get("mid_elaborated_after") and texts and not P.get("extended_subclass"):
        # the same configuration built afresh, never elaborated before completion, is the same hardware
        fcase = copy.deepcopy(case)
        fcase["mid_elab_after"] = None
        _SPELL["rng"] = random.Random(case["stim_seed"] + ":spell")
        try:
            fdut, fextra, _fm, _ff = BUILDERS[kind](fcase, random.Random(case["stim_seed"]), {})
            fports = []
            for obj in [fdut] + list(fextra):
                for s_ in all_signals(obj):
                    if not any(s_ is p_ for p_ in fports):
                        fports.append(s_)
            ftext = rtlil.convert(Top({"dut": fdut}), ports=fports, emit_src=False)
        except Exception:
            ftext = None
        if ftext is not None:
            mon.counters["same_hardware_as_a_fresh_instance"] += 1
            if ftext != texts[0]:
                a, b = ftext.splitlines(), texts[0].splitlines()
                diff = next((k for k, (x, y) in enumerate(zip(a, b)) if x != y), min(len(a), len(b)))
                mon.violations.append({"monitor": "same_hardware_as_a_fresh_instance", "mechanism": f"{kind}:bring-up-elaboration-changes-instance",
                                       "msg": f"{kind} elaborated once after {P['mid_elaborated_after']} add() calls and then completed "
                                              f"differs from a fresh instance of the same configuration at RTLIL line {diff}: "
                                              f"{b[diff] if diff < len(b) else '<eof>'!r} vs {a[diff] if diff < len(a) else '<eof>'!r}",
                                       "detail": {"params": P}})
    mon.counters["metadata_unchanged"] += 1
    meta1 = meta_fn()
    if meta0 != meta1:
        mon.violations.append({"monitor": "metadata_unchanged", "mechanism": f"{kind}:metadata-changed",
                               "msg": f"{kind}: memory map / event map changed by elaboration", "detail": {"params": P}})
    P["order"] = order
    P["rtlil_lines"] = len(texts[0].splitlines()) if texts else 0
    return mon.result(nontrivial=len(texts) >= 2 and P["rtlil_lines"] > 20, summary=P)


LEVEL_TEXT = ("Runtime sanitizers around construction and repeated elaboration of generated instances of every component class: "
              "exception-class and explicit-raise judgement of every exception, a logical step bound on repository function "
              "entries (sys.monitoring), RTLIL text equality across elaborations and across simulate/synthesise orders, and "
              "metadata snapshots before/after.")
LEVEL_NOTE = "Trusted: Amaranth (elaborator, RTLIL back end, simulator), CPython. Findings F1-F4, F7, F8 were found by this check and are fixed; their mechanism keys remain so that a regression is reported."
TECHNIQUE = "runtime sanitizers: exception-class/explicit-raise judge, sys.monitoring step counter, repeated-elaboration differential (RTLIL equality)"
DESIGN_REF = "DESIGN.md sections 2 and 4, C19"
