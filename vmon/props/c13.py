# amaranth: UnusedElaboratable=no
"""C13 - event monitor never loses an event; EventMap numbering is dense, stable, first-add order.

kind "sim": a real event.Monitor over a generated EventMap, source inputs / enable / clear random
on every cycle (bursty, so trigger and clear coincide), per-source edge model + pending model.
kind "api": a call history on EventMap (add with repeats and wrong types, index, sources, size,
freeze, add-after-freeze) against a list model, every query compared after every call.
"""
import random

from vmon import env  # noqa: F401
from vmon.simkit import Top, Mon, simulate, bits, reset_plan, drive_reset

from amaranth_soc import event

ID = "C13"
RULE = ("sim cases = EventMap of 0-12 sources (random level/rise/fall triggers, built by an add history with repeats) "
        "under event.Monitor, inputs/enable/clear random per cycle; api cases = random EventMap call histories; "
        "distinct = distinct (trigger list, add order, stimulus seed) or history; non-trivial = sim run in which a "
        "trigger coincided with a clear of a pending bit at least once, or api history with a repeated add followed "
        "by index queries")
ASSUMPTIONS = ["Amaranth simulator is faithful", "edge modes compare with previous cycle's input, initially 0"]
REQUIRED = ["trg", "pending", "src_i", "api_index", "api_sources"]


def n_cases(tier):
    return 1000 if tier == "quick" else 12000


def gen_case(rng, tier, idx):
    if idx % 4 == 3:
        return {"kind": "api", "steps": rng.randint(5, 40), "pool": 8 if idx % 40 != 39 else rng.choice([258, 300, 520])}
    n = rng.choice([0, 1, 2, 3, 4, 5, 6, 8, 12, 31, 32, 33]) if rng.random() < 0.93 else rng.choice([64, 65, 128, 129])
    if idx % 100 == 58:
        n = rng.choice([258, 270])       # more sources than CPython has shared small-int objects
    trig = [rng.choice(["level", "rise", "fall"]) for _ in range(n)]
    # add order: a shuffled order with repeats interleaved
    order = list(range(n))
    rng.shuffle(order)
    hist = []
    for s in order:
        hist.append(s)
        if hist and rng.random() < 0.3:
            hist.append(rng.choice(hist))
    return {"kind": "sim", "triggers": trig, "add_history": hist,
            "mon_trigger": rng.choice(["level", "rise", "fall"]),
            "cycles": (250 if tier == "quick" else 800) * (8 if rng.random() < 0.04 else 1)}


def run_case(case):
    rng = random.Random(case["stim_seed"])
    if case["kind"] == "api":
        return run_api(case, rng)
    trig = case["triggers"]
    n = len(trig)
    import collections
    mon_pre_counts = collections.Counter()
    from vmon.simkit import omit
    # signal names are labels, not identities: sources created without a path, or as the equally named port of
    # several instances of one peripheral class, all carry the same signal names
    naming = rng.choice(["distinct", "distinct", "distinct", "pathless", "same_path"])
    srcs = [event.Source(**omit(rng, "event.Source", trigger=t),
                         **({"path": (f"s{i}",)} if naming == "distinct" else {} if naming == "pathless" else {"path": ("irq",)}))
            for i, t in enumerate(trig)]
    for k_, s_ in enumerate(srcs):
        if rng.random() < 0.12:
            # this source is itself the outgoing line of a lower node of an interrupt tree: it carries an event map of its
            # own (set through the public setter); its trigger mode is its own all the same
            sub_map = event.EventMap()
            sub_map.add(event.Source(trigger=rng.choice(["level", "rise"]), path=(f"leaf{k_}",)))
            s_.event_map = sub_map
            mon_pre_counts["sources_that_carry_an_event_map_of_their_own"] += 1
    if rng.random() < 0.3:
        # a sizing pass first: the sources are added to a throw-away map that is dropped again before the real one is made
        # (the new map may well be allocated where the old one was)
        dry = event.EventMap()
        for s in case["add_history"]:
            dry.add(srcs[s])
        dry.size
        del dry
    permuted = rng.random() < 0.15
    emap = PriorityMap() if permuted else event.EventMap()
    first = []
    for s in case["add_history"]:
        emap.add(srcs[s])
        if s not in first:
            first.append(s)
    mon = Mon()
    for k_, v_ in mon_pre_counts.items():
        mon.count(k_, v_)

    def numbering():
        # dense, in order of first addition
        for k, s in enumerate(first):
            mon.eq("api_index", emap.index(srcs[s]), k, f"index of source s{s} (added {k}th)")
        mon.eq("api_sources", sorted([(id(a), b) for a, b in emap.sources()], key=lambda p_: p_[1]) if permuted
               else [(id(a), b) for a, b in emap.sources()],
               [(id(srcs[s]), k) for k, s in enumerate(first)], "sources()")
        if permuted:
            mon.count("maps_that_list_their_sources_in_another_order")

    mon.run(numbering)
    if mon.violations:
        return mon.result(summary={"kind": "sim", "triggers": trig, "add_history": case["add_history"]})
    from vmon.simkit import decoy

    def twin():
        em2 = event.EventMap()
        for i, t in enumerate(trig):
            em2.add(event.Source(trigger=t, path=(f"t{i}",)))
        return event.Monitor(em2, trigger=case["mon_trigger"])

    decoy(rng, twin)
    dut = event.Monitor(emap, **omit(rng, "event.Monitor", trigger=case["mon_trigger"]))
    if first and len(first) > 1 and not permuted and rng.random() < 0.12:
        # the monitor's event map is replaced (through the public setter of its `src`) by one with the same sources in
        # another order, before the design is built: the numbering that counts is the one of the map it has then
        order = list(first)
        rng.shuffle(order)
        emap = RenumberedMap() if rng.random() < 0.4 else event.EventMap()
        for s in order:
            emap.add(srcs[s])
        dut.src.event_map = emap
        first = sorted(order, key=lambda s_: emap.index(srcs[s_]))
        mon.count("monitors_whose_event_map_was_replaced_before_elaboration")
    # bit k <-> source with index k
    by_bit = [srcs[s] for s in first]
    bit_trig = [trig[s] for s in first]
    alias = {}
    if n >= 2 and rng.random() < 0.15:
        # several sources watch one and the same line (there is no both-edges mode: a rise source and a fall source
        # sharing their input signal is how one gets it); each keeps its own trigger mode
        for _ in range(rng.choice([1, 1, 2])):
            a_, b_ = rng.sample(range(n), 2)
            if a_ not in alias and b_ not in alias and a_ not in alias.values() or b_ == a_:
                by_bit[b_].i = by_bit[a_].i
                alias[b_] = a_
        mon.count("sources_sharing_their_input_line", len(alias))
    st = {"prev_i": [0] * n, "pending": 0, "nontrivial": False}
    mask = (1 << n) - 1
    burst = {"i": 0, "clear": 0, "enable": 0}
    resets = reset_plan(case["cycles"])

    async def bench(ctx):
        for c in range(case["cycles"]):
            mon.cycle = c
            drive_reset(ctx, c in resets)
            for key, p in (("i", 0.5), ("clear", 0.5), ("enable", 0.3)):
                if rng.random() < p:
                    burst[key] = rng.choice([bits(rng, n), bits(rng, n) & bits(rng, n), mask, 0,
                                             (1 << rng.randrange(n)) if n else 0])
            i_vec, clear, enable = burst["i"], burst["clear"], burst["enable"]
            for b_, a_ in alias.items():
                i_vec = (i_vec & ~(1 << b_)) | (((i_vec >> a_) & 1) << b_)
            for k in range(n):
                ctx.set(by_bit[k].i, (i_vec >> k) & 1)
            if n:
                ctx.set(dut.clear, clear)
                ctx.set(dut.enable, enable)
            pend = ctx.get(dut.pending) if n else 0
            trg_exp = 0
            for k in range(n):
                i_k, p_k = (i_vec >> k) & 1, st["prev_i"][k]
                t = {"level": i_k, "rise": (1 - p_k) & i_k, "fall": p_k & (1 - i_k)}[bit_trig[k]]
                trg_exp |= t << k
                mon.eq("trg", ctx.get(by_bit[k].trg), t,
                       f"trg of bit {k} ({bit_trig[k]}, prev={p_k}, now={i_k})")
            mon.log({"c": c, "i": i_vec, "clear": clear, "enable": enable, "pending": pend,
                     "model_pending": st["pending"]})
            mon.eq("pending", pend, st["pending"], "pending mask")
            mon.eq("src_i", ctx.get(dut.src.i), int((enable & st["pending"]) != 0), "outgoing line src.i")
            if trg_exp & clear & st["pending"]:
                mon.count("trigger_and_clear_of_pending_bit")
                st["nontrivial"] = True
            if n <= 2:
                mon.bin(f"state:n{n}", (st["pending"], trg_exp, clear))
            st["pending"] = ((st["pending"] & ~clear) | trg_exp) & mask
            st["prev_i"] = [(i_vec >> k) & 1 for k in range(n)]
            if c in resets:
                # warm reset: nothing pending, previous inputs low again ("initially low")
                st["pending"], st["prev_i"] = 0, [0] * n
                mon.count("warm_resets")
            await ctx.tick()

    simulate(Top({"mon": dut}), bench, mon)
    if n == 0:
        st["nontrivial"] = False
    mon.count("cycles", mon.cycle + 1)
    mon.bin("n_sources", n)
    for t in bit_trig:
        mon.bin("trigger_modes", t)
    summary = {"kind": "sim", "triggers": trig, "add_history": case["add_history"], "stim": case["stim_seed"]}
    return mon.result(nontrivial=st["nontrivial"], summary=summary)


class PriorityMap(event.EventMap):
    """A project subclass that lists its sources highest index first (priority order); the (source, index) pairs are the
    library's."""

    def sources(self):
        yield from reversed(list(super().sources()))


class RenumberedMap(event.EventMap):
    """A project subclass that numbers its sources from the top (index() and sources() overridden consistently)."""

    def index(self, src):
        return self.size - 1 - super().index(src)

    def sources(self):
        for src, k in super().sources():
            yield src, self.size - 1 - k


class EqSource(event.Source):
    """A project's own source class with value equality (two UARTs' "rx" events compare equal): event maps
    identify sources by identity."""
    def __init__(self, label, **kw):
        super().__init__(**kw)
        self.label = label

    def __eq__(self, other):
        return isinstance(other, EqSource) and other.label == self.label

    def __hash__(self):
        return hash(self.label)


def run_api(case, rng):
    mon = Mon()
    # several live maps over one pool of sources (a peripheral's own map, a SoC-level map merged from it, a
    # descriptive subset): a source may sit in more than one, at different positions
    nmaps = rng.choice([1, 2, 2, 3])
    pool = [event.Source(trigger=rng.choice(["level", "rise", "fall"]), path=(f"p{i}",)) for i in range(5)]
    pool += [EqSource(rng.choice(["rx", "tx"]), trigger=rng.choice(["level", "rise"]), path=(f"e{i}",)) for i in range(3)]
    if rng.random() < 0.3:
        # some of the sources have been in a throw-away map before (a sizing pass, an abandoned build) that no longer exists
        dry = event.EventMap()
        for s_ in rng.sample(pool, rng.randint(1, len(pool))):
            dry.add(s_)
        del dry
        mon.count("sources_that_were_in_a_dropped_map_before")
    emaps = [event.EventMap() for _ in range(nmaps)]
    if case.get("pool", 8) > 8:
        # a big interrupt controller: hundreds of sources, mostly added one after the other
        pool += [event.Source(trigger="level", path=(f"q{i}",)) for i in range(case["pool"] - 8)]
        case = dict(case, steps=case["pool"] + case["steps"])
    big = len(pool) > 8
    cursor = [0]
    models = [[] for _ in range(nmaps)]          # per map: indices into pool, first-add order
    frozen = [False] * nmaps
    hist = []
    st = {"repeat_then_index": False, "had_repeat": False}

    def snapshot(k):
        return [(id(a), b) for a, b in emaps[k].sources()], emaps[k].size

    def history():
        for step in range(case["steps"]):
            mon.cycle = step
            k = rng.randrange(nmaps)
            emap, model = emaps[k], models[k]
            op = rng.choice(["add", "add", "add", "index", "sources", "freeze" if rng.random() < 0.2 else "add",
                             "add_bad", "index_bad"])
            before = snapshot(k)
            if big and rng.random() < 0.85:
                op, k = "add", 0
                emap, model = emaps[k], models[k]
                before = snapshot(k)
            if op == "add":
                j = rng.randrange(len(pool))
                if big and rng.random() < 0.9:
                    j = cursor[0] % len(pool)
                    cursor[0] += 1
                hist.append(("add", k, j))
                mon.log(hist[-1])
                try:
                    emap.add(pool[j])
                    raised = None
                except Exception as e:
                    raised = e
                if frozen[k]:
                    if j not in model:
                        mon.ok("api_frozen", isinstance(raised, ValueError),
                               f"add of a new source after freeze must raise ValueError, got {raised!r}")
                    mon.eq("api_atomic", snapshot(k), before, "add after freeze changed the map")
                else:
                    mon.ok("api_add", raised is None, f"add raised {raised!r}")
                    if j in model:
                        st["had_repeat"] = True
                        mon.eq("api_atomic", snapshot(k), before, "repeated add changed the map")
                    else:
                        model.append(j)
            elif op == "add_bad":
                bad = rng.choice([None, 1, "x", object()])
                hist.append(("add_bad", k, repr(bad)[:20]))
                try:
                    emap.add(bad)
                    raised = None
                except Exception as e:
                    raised = e
                mon.ok("api_refusal", isinstance(raised, (TypeError, ValueError)),
                       f"add({bad!r}) must be refused, got {raised!r}")
                mon.eq("api_atomic", snapshot(k), before, "refused add changed the map")
            elif op == "index":
                j = rng.randrange(len(pool))
                hist.append(("index", k, j))
                try:
                    got = emap.index(pool[j])
                except KeyError:
                    got = KeyError
                exp = model.index(j) if j in model else KeyError
                mon.eq("api_index", got, exp, f"map {k}: index(pool[{j}])")
                if st["had_repeat"]:
                    st["repeat_then_index"] = True
            elif op == "index_bad":
                try:
                    emap.index("nope")
                    raised = None
                except Exception as e:
                    raised = e
                mon.ok("api_refusal", isinstance(raised, TypeError), f"index('nope') got {raised!r}")
            elif op == "freeze":
                hist.append(("freeze", k))
                emap.freeze()
                frozen[k] = True
            # after every call: all queries of EVERY live map against its model
            for q in range(nmaps):
                mon.eq("api_sources", snapshot(q), ([(id(pool[j]), i_) for i_, j in enumerate(models[q])], len(models[q])),
                       f"sources()/size of map {q} after " + repr(hist[-1:] or op))

    mon.run(history)
    mon.count("api_calls", case["steps"])
    mon.bin("live_event_maps", nmaps)
    summary = {"kind": "api", "maps": nmaps, "history": hist[:60]}
    return mon.result(nontrivial=st["repeat_then_index"], summary=summary)


LEVEL_TEXT = ("Online monitor of the real event.Monitor against a per-source edge/pending model on every simulated "
              "cycle with random, bursty inputs, plus a recording proxy over EventMap call histories compared with a "
              "list model after every call.")
LEVEL_NOTE = "Trusted: Amaranth simulator, CPython, the pending/edge model."
TECHNIQUE = "runtime monitoring: per-cycle reference-model trace checker + API history checker against a list model"
DESIGN_REF = "DESIGN.md section 4, C13"
