# amaranth: UnusedElaboratable=no
"""C11 - register fields are packed LSB-first, contiguously, and strobed by access mode.

Each case generates a field collection (single field, dicts, lists, nesting to depth 4, or the same
collection given as class annotations), builds a real csr.Register, and on every simulated cycle
compares the element port and every field port with an independent flattener working on the
generator's own description. Collections containing a field the register's access mode cannot serve
must be rejected at construction.
"""
import collections
import copy
import typing
import random

from vmon import env  # noqa: F401
from vmon.simkit import Top, Mon, simulate, bits

from amaranth import Module, Value, unsigned, signed
from amaranth.lib import enum as am_enum

from amaranth_soc import csr
from amaranth_soc.csr import action
from amaranth_soc.csr.reg import FieldActionMap, FieldActionArray

ID = "C11"
RULE = ("cases = field collection (single | dict | list | nested to depth 4 | annotation-defined subclass) of leaves with "
        "shapes unsigned 0-9 / signed 1-8 / enum, actions R, W, RW, RW1C, RW1S, reserved, and harness probe actions of "
        "access r/w/rw/nc, under register access r/w/rw; all element inputs and field read values random per cycle; "
        "distinct = distinct collection+access+stimulus; non-trivial = accepted register with >= 3 leaves, nesting depth "
        ">= 2 and both a readable and a writable field (or: a rejected incompatible collection)")
ASSUMPTIONS = ["Amaranth simulator is faithful", "independent flattener over the generator's description; declaration "
               "order cross-checked against plain iteration of the live FieldActionMap/FieldActionArray objects"]
REQUIRED = ["width_is_sum", "r_data_packing", "w_data_slices", "strobe_fanout", "strobe_absent", "rejected_incompatible",
            "accepted_compatible", "order_matches_live_objects"]


class EA(am_enum.Enum, shape=unsigned(2)):
    A = 0
    B = 1
    C = 3


class ProbeAction(csr.FieldAction):
    """Field action with no logic: its port is driven / observed by the testbench."""
    def __init__(self, shape, access):
        super().__init__(shape, access)

    def elaborate(self, platform):
        return Module()


ACTIONS = {"R": ("r", action.R), "W": ("w", action.W), "RW": ("rw", action.RW), "RW1C": ("rw", action.RW1C),
           "RW1S": ("rw", action.RW1S), "ResRAW0": ("nc", action.ResRAW0), "ResR0WA": ("nc", action.ResR0WA),
           "Pr": ("r", None), "Pw": ("w", None), "Prw": ("rw", None), "Pnc": ("nc", None)}


def n_cases(tier):
    return 900 if tier == "quick" else 12000


# field names: plain ones; ones that look like another path once written out with "__" (also the name a de-duplicated
# look-alike would get); and ones that are also the names of methods of the mapping / sequence classes holding them
KEY_POOL = ["a", "b", "c", "d", "e_", "_f", "g0", "a__b", "a__0", "b__0",
            "b__c", "a__b__c", "a__0__1", "a__b__1", "items", "keys", "values", "get", "flatten", "f"]


def gen_leaf(rng, allowed):
    act = rng.choice(allowed)
    x = rng.random()
    if x < 0.06:
        shape = ["u", rng.choice([31, 32, 33, 64, 65, 100])]
    elif x < 0.65:
        shape = ["u", rng.choice([0, 1, 1, 2, 3, 4, 5, 8, 9])]
    elif x < 0.85:
        shape = ["s", rng.randint(1, 8)]
    else:
        shape = ["e", 2]
    return ["leaf", act, shape]


def gen_node(rng, depth, allowed):
    if depth <= 0 or rng.random() < 0.45:
        return gen_leaf(rng, allowed)
    many = rng.random() < 0.04
    if depth >= 2 and rng.random() < 0.05:
        # three fields whose paths are distinct but read the same once written out ("a__b"), next to the name a
        # de-duplicated look-alike would be given ("a__b__1")
        if rng.random() < 0.5:
            trio = [["a", ["dict", [["b", gen_leaf(rng, allowed)]]]], ["a__b", gen_leaf(rng, allowed)],
                    ["a__b__1", gen_leaf(rng, allowed)]]
        else:
            inner = [["b", ["dict", [["c", gen_leaf(rng, allowed)]]]], ["b__c", gen_leaf(rng, allowed)]]
            rng.shuffle(inner)
            trio = [["a", ["dict", inner]], ["a__b", ["dict", [["c", gen_leaf(rng, allowed)]]]]]
        rng.shuffle(trio)
        return ["dict", trio]
    if rng.random() < 0.5:
        n = rng.randint(1, 4) if not many else rng.randint(17, 40)
        keys = rng.sample(KEY_POOL if rng.random() < 0.3 else KEY_POOL[:10], n) if not many else [f"k{i}" for i in range(n)]
        return ["dict", [[k, gen_node(rng, depth - 1 if not many else 0, allowed)] for k in keys]]
    if not many and rng.random() < 0.2:
        # a bank of identical channels described by one sub-collection that is repeated
        one = gen_node(rng, depth - 1, allowed)
        return ["list", [copy.deepcopy(one) for _ in range(rng.randint(2, 3))], "alias"]
    return ["list", [gen_node(rng, depth - 1 if not many else 0, allowed)
                     for _ in range(rng.randint(1, 3) if not many else rng.randint(17, 70))]]


def gen_case(rng, tier, idx):
    access = rng.choice(["r", "w", "rw", "rw"])
    names = list(ACTIONS)
    compatible = [a for a in names if all(ch in access for ch in ACTIONS[a][0] if ch in "rw") or ACTIONS[a][0] == "nc"]
    mode = "bad" if (idx % 5 == 4 and access != "rw") else "good"
    allowed = compatible if mode == "good" else names
    top_kind = rng.choice(["single", "dict", "dict", "list", "annot"])
    if top_kind == "single":
        tree = gen_leaf(rng, allowed)
    else:
        tree = gen_node(rng, 4, allowed)
        while tree[0] == "leaf":
            tree = gen_node(rng, 4, allowed)
        if top_kind == "annot" and tree[0] != "dict":
            tree = ["dict", [["top", tree]]]
    if mode == "bad" and rng.random() < 0.3:
        # the only field the register cannot serve is a degenerate one (zero or one bit wide, deep in the collection)
        def leaves_of(n):
            if n[0] == "leaf":
                return [n]
            kids = [v[1] for v in n[1]] if n[0] == "dict" else (n[1][:1] if len(n) > 2 else n[1])   # aliased lists: one copy
            return [l for v in kids for l in leaves_of(v)]

        def resync(n):
            if n[0] == "leaf":
                return
            if n[0] == "list" and len(n) > 2:
                resync(n[1][0])
                n[1][1:] = [copy.deepcopy(n[1][0]) for _ in n[1][1:]]
                return
            for v in n[1]:
                resync(v[1] if n[0] == "dict" else v)
        ls = leaves_of(tree)
        for l in ls:
            if l[1] not in compatible:
                l[1] = rng.choice(compatible)
        victim = rng.choice(ls)
        victim[1] = rng.choice([a for a in names if a not in compatible])
        victim[2] = ["u", rng.choice([0, 0, 1])]
        resync(tree)
    return {"access": access, "tree": tree, "top_kind": top_kind, "cycles": 120 if tier == "quick" else 300}


def mk_shape(s):
    return unsigned(s[1]) if s[0] == "u" else signed(s[1]) if s[0] == "s" else EA


def shape_width(s):
    return 2 if s[0] == "e" else s[1]


class DictSub(dict):
    pass


class ListSub(list):
    pass


def spell_container(rng, obj):
    """The same mapping / sequence as the container class a user may hold it in (subclasses of dict and list)."""
    if rng is None or rng.random() >= 0.15:
        return obj
    if isinstance(obj, dict):
        return rng.choice([collections.OrderedDict, DictSub, lambda d: collections.defaultdict(None, d)])(obj)
    return ListSub(obj)


def to_fields(node, rng=None):
    if node[0] == "leaf":
        _l, act, shape = node
        acc, cls = ACTIONS[act]
        if cls is None:
            return csr.Field(ProbeAction, mk_shape(shape), acc)
        return csr.Field(cls, mk_shape(shape))
    if node[0] == "dict":
        return spell_container(rng, {k: to_fields(v, rng) for k, v in node[1]})
    if len(node) > 2 and node[2] == "alias":
        one = to_fields(node[1][0], rng)          # the very same sub-collection object repeated (chan, chan, chan)
        return spell_container(rng, [one for _ in node[1]])
    return spell_container(rng, [to_fields(v, rng) for v in node[1]])


def flatten(node, path=()):
    """Independent flattener: leaves in declaration order with their description."""
    if node[0] == "leaf":
        return [(path, node)]
    out = []
    if node[0] == "dict":
        for k, v in node[1]:
            out += flatten(v, path + (k,))
    else:
        for i, v in enumerate(node[1]):
            out += flatten(v, path + (i,))
    return out


def depth_of(node):
    return 0 if node[0] == "leaf" else 1 + max(depth_of(v[1] if node[0] == "dict" else v) for v in node[1])


def live_leaves(obj):
    """Leaves of the live field collection by plain iteration (not flatten())."""
    if isinstance(obj, FieldActionMap):
        out = []
        for k in obj:
            out += live_leaves(obj[k])
        return out
    if isinstance(obj, FieldActionArray):
        out = []
        for i in range(len(obj)):
            out += live_leaves(obj[i])
        return out
    return [obj]


JUNK_ANNOTATIONS = {"presets": dict, "table": dict[str, int], "names": typing.Mapping[str, int], "count": int,
                    "label": "str", "opt": typing.Optional[int], "cb": typing.Callable[[int], int], "seq": list[int]}


def run_case(case):
    rng = random.Random(case["stim_seed"])
    mon = Mon()
    access, tree = case["access"], case["tree"]
    junk_rng = random.Random(case["stim_seed"] + ":junk")

    def annots(fields_):
        """Class annotations: the fields plus, sometimes, ordinary typed helper attributes that are not fields (types,
        generic aliases, strings), interleaved."""
        out = {}
        items = list(fields_.items())
        extra = junk_rng.sample(sorted(JUNK_ANNOTATIONS), junk_rng.choice([0, 0, 1, 2, 3]))
        for k_, v_ in items:
            if extra and junk_rng.random() < 0.5:
                j_ = extra.pop()
                out[j_] = JUNK_ANNOTATIONS[j_]
            out[k_] = v_
        for j_ in extra:
            out[j_] = JUNK_ANNOTATIONS[j_]
        return out

    def make_cls(name_, bases_, ann_, **kw_):
        """The class; in a quarter of the cases its annotations are completed after the class statement, the way a class
        decorator (or a loop following the class body) adds fields - before the first instance exists."""
        items_ = list(ann_.items())
        if len(items_) >= 2 and junk_rng.random() < 0.25:
            k_ = junk_rng.randrange(0, len(items_))
            c_ = type(name_, bases_, {"__annotations__": dict(items_[:k_])}, **kw_)
            c_.__annotations__.update(items_[k_:])
            mon.count("annotations_completed_after_the_class_statement")
            return c_
        return type(name_, bases_, {"__annotations__": ann_}, **kw_)

    leaves = flatten(tree)
    incompatible = [p for p, (_l, act, _s) in leaves
                    if any(ch not in access for ch in ACTIONS[act][0] if ch in "rw")]
    fields = to_fields(tree, random.Random(case["stim_seed"] + ":containers"))
    if rng.random() < 0.3 and case["top_kind"] != "annot":
        try:        # the same description objects used for another register first (Field.create() must give fresh actions)
            from amaranth.hdl import Fragment
            Fragment.get(Top({"twin": csr.Register(fields, access="rw")}), None)
        except Exception:
            pass
    summary = {"access": access, "top_kind": case["top_kind"], "leaves": [(list(p), l[1], l[2]) for p, l in leaves][:24],
               "stim": case["stim_seed"]}
    reinst = None
    order_dependent = inherits = None
    try:
        if case["top_kind"] == "annot":
            x_ = rng.random()
            if x_ < 0.25:
                # a base class with other annotations is defined and instantiated FIRST; the subclass declares its own
                def hierarchy():
                    bf = {"zz_base": csr.Field(ProbeAction, unsigned(3), "rw" if access == "rw" else access),
                          "yy_base": [csr.Field(ProbeAction, unsigned(1), "rw" if access == "rw" else access)]}
                    b_ = type("AnnBase", (csr.Register,), {"__annotations__": bf}, access=access)
                    return b_, type("AnnDerived", (b_,), {"__annotations__": annots(to_fields(tree))})

                def shape_of(r_):
                    return [(type(a).__name__, a.port.access.value, Value.cast(a.port.r_data).shape().width)
                            for a in live_leaves(r_.field)]

                _b0, d0 = hierarchy()
                control = shape_of(d0())            # subclass instantiated without its base ever being instantiated
                base, cls = hierarchy()
                base()
                cls = make_cls("AnnDerived", (base,), annots(fields))
                reg = cls()
                order_dependent = shape_of(reg) != control
                inherits = len(control) != len(leaves)
            elif x_ < 0.4:
                if rng.random() < 0.4:
                    # the class statement of a derived class overrides the access mode its base class declared
                    other_ = rng.choice([a_ for a_ in ("r", "w", "rw") if a_ != access])
                    base_ = type("AnnBaseMode", (csr.Register,), {}, access=other_)
                    cls = make_cls("AnnReg", (base_,), annots(fields), access=access)
                    mon.count("derived_classes_overriding_the_access_mode_of_their_base")
                else:
                    cls = make_cls("AnnReg", (csr.Register,), annots(fields), access=access)
                reg = cls()
            elif x_ < 0.5:
                # a subclass that declares no fields of its own (only a helper method) has its parent's fields
                base_ = make_cls("AnnReg", (csr.Register,), annots(fields), access=access)
                cls = type("AnnChild", (base_,), {"__doc__": "same fields, one more method", "helper": lambda self: 1})
                reg = cls()
            else:
                # access given per instance: the same class is instantiated several times
                cls = make_cls("AnnReg", (csr.Register,), annots(fields))
                reg = cls(access=access)
                reinst = []
                for other in ("r", "w", "rw"):
                    bad = [p for p, (_l, act, _s) in leaves if any(ch not in other for ch in ACTIONS[act][0] if ch in "rw")]
                    try:
                        cls(access=other)
                        reinst.append((other, bad, None))
                    except Exception as e2:
                        reinst.append((other, bad, e2))
        else:
            reg = csr.Register(fields, access=access)
        raised = None
    except Exception as e:
        reg, raised = None, e

    def construction():
        if order_dependent is not None:
            mon.ok("subclass_layout_independent_of_instantiation_order", not order_dependent,
                   "an annotated subclass has a different field layout when its base class was instantiated first")
        if incompatible:
            mon.ok("rejected_incompatible", isinstance(raised, (ValueError, TypeError)),
                   f"fields {incompatible} cannot be served by a register of access '{access}' but construction "
                   f"{'succeeded' if raised is None else 'raised ' + repr(raised)}")
        else:
            mon.ok("accepted_compatible", raised is None, f"compatible collection was rejected: {raised!r}")
        for other, bad, exc in (reinst or []):
            if bad:
                mon.ok("rejected_incompatible", isinstance(exc, (ValueError, TypeError)),
                       f"second instance of the same annotated class with access '{other}' cannot serve fields {bad} but was "
                       f"{'accepted' if exc is None else 'failed with ' + repr(exc)}")
            else:
                mon.ok("accepted_compatible", exc is None, f"second instance with access '{other}' was rejected: {exc!r}")

    mon.run(construction)
    if reg is None or mon.violations:
        return mon.result(nontrivial=bool(incompatible), summary=summary)
    if inherits:
        # the subclass does not consist of exactly its own annotations (inheritance semantics this harness does not
        # model): only the order-independence above is judged
        mon.count("annotation_inheritance_semantics_not_modelled")
        return mon.result(summary=summary)

    el = reg.element
    live = live_leaves(reg.field)
    W = sum(shape_width(l[2]) for _p, l in leaves)
    info = []          # (leaf description, live action, lo, hi)
    pos = 0
    for (p, l), act in zip(leaves, live):
        w = shape_width(l[2])
        info.append((p, l, act, pos, pos + w))
        pos += w

    def static():
        mon.eq("width_is_sum", el.width, W, "register width vs sum of field widths")
        mon.eq("order_matches_live_objects", [(type(a).__name__, a.port.access.value, Value.cast(a.port.r_data).shape().width)
                                               for a in live],
               [(ACTIONS[l[1]][1].__name__ if ACTIONS[l[1]][1] else "ProbeAction", ACTIONS[l[1]][0], shape_width(l[2]))
                for _p, l in leaves], "leaves of the live collection (plain iteration) vs declaration order")

    def accessors():
        # every documented way of naming a field reaches the same field: key lookup and attribute access on maps,
        # non-negative and negative indices and iteration on arrays
        for (p, _l), act in zip(leaves, live):
            for mode in ("neg", "attr", "iter"):
                obj = reg.field
                for k in p:
                    if isinstance(obj, FieldActionArray):
                        obj = obj[k - len(obj)] if mode == "neg" else list(obj)[k] if mode == "iter" else obj[k]
                    elif mode == "attr" and isinstance(k, str) and k.isidentifier() and not k.startswith("_") \
                            and not hasattr(type(obj), k):       # (a field called "items" is reached by item access only)
                        obj = getattr(obj, k)
                    else:
                        obj = obj[k]
                mon.ok("accessors_agree", obj is act, f"field {list(p)} reached with {mode} accessors is another object "
                                                      f"than the one plain iteration yields")

    mon.run(static)
    if leaves and not isinstance(reg.field, csr.FieldAction):
        mon.run(accessors)
    if mon.violations:
        return mon.result(summary=summary)
    readable, writable = "r" in access, "w" in access

    def u(ctx, sig, w):
        return ctx.get(Value.cast(sig)) & ((1 << w) - 1) if w else 0

    async def bench(ctx):
        for c in range(case["cycles"]):
            mon.cycle = c
            r_stb = w_stb = w_data = 0
            if readable:
                r_stb = rng.getrandbits(1)
                ctx.set(el.r_stb, r_stb)
            if writable:
                w_stb = rng.getrandbits(1)
                w_data = bits(rng, W)
                ctx.set(el.w_stb, w_stb)
                if W:
                    ctx.set(el.w_data, w_data)
            for p, l, act, lo, hi in info:
                w = hi - lo
                if not w:
                    continue
                if l[1] in ("Pr", "Prw"):
                    ctx.set(Value.cast(act.port.r_data), bits(rng, w))
                elif l[1] == "R":
                    ctx.set(Value.cast(act.r_data), bits(rng, w))
                elif l[1] == "RW1C":
                    ctx.set(Value.cast(act.set), bits(rng, w) & bits(rng, w))
                elif l[1] == "RW1S":
                    ctx.set(Value.cast(act.clear), bits(rng, w) & bits(rng, w))
            exp_r = 0
            for p, l, act, lo, hi in info:
                acc = ACTIONS[l[1]][0]
                w = hi - lo
                if "r" in acc:
                    exp_r |= u(ctx, act.port.r_data, w) << lo
                    mon.eq("strobe_fanout", ctx.get(act.port.r_stb), r_stb, f"field {p}: port.r_stb vs element.r_stb")
                else:
                    mon.eq("strobe_absent", ctx.get(act.port.r_stb), 0, f"field {p} ({acc}) must never see a read strobe")
                if "w" in acc:
                    mon.eq("strobe_fanout", ctx.get(act.port.w_stb), w_stb, f"field {p}: port.w_stb vs element.w_stb")
                    mon.eq("w_data_slices", u(ctx, act.port.w_data, w), (w_data >> lo) & ((1 << w) - 1),
                           f"field {p}: port.w_data vs element.w_data[{lo}:{hi}]")
                else:
                    mon.eq("strobe_absent", ctx.get(act.port.w_stb), 0, f"field {p} ({acc}) must never see a write strobe")
            if readable:
                got = ctx.get(el.r_data) if W else 0
                mon.eq("r_data_packing", got, exp_r, "element.r_data vs readable fields at their bit ranges (zero elsewhere)")
            mon.log({"c": c, "r_stb": r_stb, "w_stb": w_stb, "w_data": w_data})
            await ctx.tick()

    simulate(Top({"reg": reg}), bench, mon)
    mon.count("cycles", mon.cycle + 1)
    mon.bin("top_kind", case["top_kind"])
    mon.bin("depth", depth_of(tree))
    for _p, l in leaves:
        mon.bin("leaf_kinds", (l[1], l[2][0]))
    accs = {ACTIONS[l[1]][0] for _p, l in leaves}
    nontrivial = len(leaves) >= 3 and depth_of(tree) >= 2 and any("r" in a for a in accs) and any("w" in a for a in accs)
    return mon.result(nontrivial=nontrivial, summary=summary)


LEVEL_TEXT = ("Online monitor over simulations of real csr.Register instances built from generated field collections: packing, "
              "write slices and strobe fan-out are compared on every cycle with an independent flattener; construction "
              "accept/reject is judged against access-mode compatibility.")
LEVEL_NOTE = "Trusted: Amaranth simulator, CPython, the independent flattener."
TECHNIQUE = "runtime monitoring: per-cycle packing/strobe oracle from an independent flattener over randomized simulation"
DESIGN_REF = "DESIGN.md section 4, C11"
