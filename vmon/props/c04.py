# amaranth: UnusedElaboratable=no
"""C04 - CSR multiplexer reads are atomic snapshots and side-effect exact (see work/mux.py)."""
from vmon.work import mux

ID = "C04"
RULE = ("cases = generated register layout (addr width 1-8, data width 1-32, map alignment 0-2, 0-8 probe registers of "
        "width 0..4*dw+1, r/w/rw, implicit / naturally aligned / unaligned-explicit / padded placement, every "
        "shadow_overlaps in {None,0,1,2,3}) x stimulus (conforming transaction stream with aborts, idle gaps, unmapped "
        "accesses, simultaneous read+write; 'mixed' with protocol breaches; 'raw' random every cycle), register values "
        "re-randomised every cycle; distinct = distinct layout+stimulus; non-trivial = run with >= 1 multi-chunk "
        "snapshot evaluation (chunk k>0) made after the register's value had changed since capture")
ASSUMPTIONS = ["Amaranth simulator is faithful", "timing model S1/S3/A1 of DESIGN.md C04 (models/csrmux.py)",
               "layouts whose shadow_overlaps limit no shadow size can satisfy are refused at elaboration (finding F3, fixed; checked by C19): skipped and counted"]
REQUIRED = ["S1_r_stb", "S3_zero_when_idle", "A1_first_chunk", "A1_snapshot", "A1_multi_chunk_after_value_change"]


def n_cases(tier):
    return 1200 if tier == "quick" else 16000


def gen_case(rng, tier, idx):
    return mux.gen_layout(rng, tier)


def run_case(case):
    r = mux.run_mux_case(case, mux.C04_MONITORS)
    r["nontrivial"] = r.pop("multi_a1", 0) > 0
    r.pop("multi_a2", None)
    return r


LEVEL_TEXT = ("Online trace monitor over simulations of the real csr.Multiplexer on generated layouts: read strobes, "
              "zero-when-idle and returned data are compared on every cycle with a layout-only timing model; snapshot "
              "atomicity is asserted inside transactions the monitor itself recognises as protocol-conforming.")
LEVEL_NOTE = "Trusted: Amaranth simulator, CPython, models/csrmux.py. Layouts with an unsatisfiable sharing limit are refused at elaboration and skipped here (C19 checks the refusal)."
TECHNIQUE = "runtime monitoring: per-cycle trace checker with a layout-only reference model over randomized simulation"
DESIGN_REF = "DESIGN.md section 4, C04/C05"
