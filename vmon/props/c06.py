# amaranth: UnusedElaboratable=no
"""C06 - CSR decoder routes each access to exactly one subordinate, transparently.

kind "bare": a real csr.Decoder over bare subordinate interfaces played by the testbench as
conforming CSR targets (random data one cycle after a read strobe, zero otherwise); every decoder
input random on every cycle; per-cycle routing oracle built from memory_map.windows().
kind "diff": a tree of decoders over multiplexers and, in the same simulation, ONE flat
multiplexer over twin probe registers placed where root.memory_map.all_resources() says they
are; both are fed the same strictly conforming CSR stream and must be indistinguishable.
"""
import random

from vmon import env  # noqa: F401
from vmon.simkit import Top, Mon, simulate, bits, new_map
from vmon.work.mux import Probe

from amaranth_soc import csr
from amaranth_soc.memory import MemoryMap

ID = "C06"
RULE = ("bare cases = decoder (addr width 2-10, data width 1-32, alignment 0-3) with 0-6 subordinate windows of varied "
        "size/order/placement (implicit, align_to, explicit multiples of the window size, named/anonymous), all inputs "
        "random per cycle with addresses biased to window boundaries; diff cases = tree of decoders (depth 1-3) over "
        "multiplexers vs one flat multiplexer, strictly conforming stream; distinct = distinct topology+stimulus; "
        "non-trivial = bare run with >= 2 windows in which every window was strobed, or diff run with >= 2 multiplexers "
        "and >= 1 multi-chunk register behind a window at non-zero base")
ASSUMPTIONS = ["Amaranth simulator is faithful", "windows() ranges as ground truth (C02); three-zone rule for padded windows",
               "diff: stimulus strictly conforming because stale shadow contents legitimately differ between one shared "
               "multiplexer and several separate ones"]
REQUIRED = ["route_r_stb", "route_w_stb", "fwd_addr", "fwd_w_data", "r_data_upstream", "unassigned_no_strobe",
            "diff_r_data", "diff_r_stb", "diff_w_stb", "diff_w_data"]


def n_cases(tier):
    return 720 if tier == "quick" else 9000


def gen_case(rng, tier, idx):
    if idx % 3 == 2:
        return {"kind": "diff", "aw": rng.choice([4, 5, 6, 7, 8, 9]), "dw": rng.choice([4, 8, 8, 16]),
                "depth": rng.randint(1, 3), "cycles": 300 if tier == "quick" else 800}
    aw = rng.choice([2, 3, 4, 5, 6, 8, 10, 12, 16])
    if idx % 60 == 31:
        # a decoder with a hundred-odd windows (a large SoC's CSR fabric): odd counts, counts around multiples of 64
        return {"kind": "bare", "aw": rng.choice([12, 16]), "dw": rng.choice([8, 32]), "al": 0,
                "nsubs": rng.choice([65, 66, 97, 99, 100, 127, 129, 131, 150]), "query_between_adds": False,
                "elaborate_between_adds": False, "cycles": 600 if tier == "quick" else 1500}
    if idx % 60 in (13, 43):
        # a bank of identical peripherals laid out back to back from address 0, in a decoder with room to spare above it
        n, k = rng.choice([8, 8, 9, 12, 16, 16, 20, 32]), rng.randint(1, 4)
        return {"kind": "bare", "aw": k + (n - 1).bit_length() + rng.randint(1, 3), "dw": rng.choice([8, 16, 32]), "al": 0,
                "nsubs": n, "uniform": k, "query_between_adds": False, "elaborate_between_adds": rng.random() < 0.3,
                "cycles": 300 if tier == "quick" else 800}
    return {"kind": "bare", "aw": aw, "dw": rng.choice([1, 4, 8, 8, 16, 32, 64, 65]),
            "al": rng.choice([0, 0, 0, 1, 2, 3]) if aw > 3 else 0,
            "nsubs": rng.choice([0, 1, 2, 3, 4, 5, 6, 17, 20, 33, 40]) if aw >= 8 else rng.choice([0, 1, 2, 3, 4, 5, 6]),
            "query_between_adds": rng.random() < 0.4, "elaborate_between_adds": rng.random() < 0.3,
            "cycles": 250 if tier == "quick" else 700}


def run_case(case):
    rng = random.Random(case["stim_seed"])
    return run_bare(case, rng) if case["kind"] == "bare" else run_diff(case, rng)


# ------------------------------------------------------------------------------------------ bare

def run_bare(case, rng):
    aw, dw = case["aw"], case["dw"]
    from vmon.simkit import omit
    dec = csr.Decoder(**omit(rng, "csr.Decoder", addr_width=aw, data_width=dw, alignment=case["al"]))
    subs, topo, rejected = [], [], []
    accepted = []
    if rng.random() < 0.1:
        # the decoder's own memory map is replaced (through the public setter) by an equivalent one, before any add()
        dec.bus.memory_map = MemoryMap(addr_width=aw, data_width=dw, alignment=case["al"])
    for i in range(case["nsubs"]):
        k = rng.randint(1, max(1, (aw - 5) if case["nsubs"] > 8 else (aw - 1)))
        if case["nsubs"] > 60:
            k = rng.randint(1, aw - 9)
        if case.get("uniform"):
            k = case["uniform"]
        elif rng.random() < 0.08:
            k = aw + rng.randint(0, 1)        # does not fit (or fills the decoder): a rejected add is part of the history
        sub = csr.Interface(addr_width=k, data_width=dw, path=(f"sub{i}",))
        sub.memory_map = new_map(addr_width=k, data_width=dw)
        if rng.random() < 0.3 and not case.get("uniform"):
            try:
                dec.align_to(rng.randint(0, aw))
            except ValueError:
                pass
        kw = {}
        if rng.random() < 0.35 and not case.get("uniform"):
            kw["addr"] = rng.randrange(1 << aw) // (1 << k) * (1 << k)
        name = None if rng.random() < 0.5 else f"w{i}"
        if name is not None and rng.random() < 0.4:
            # sibling names that are distinct (and legal together) but look alike once written out
            j_ = rng.randrange(3)
            name = rng.choice([("u", j_), f"u__{j_}", ("u", str(j_)), f"u_{j_}", ("u_", j_)])
        try:
            granted = dec.add(sub, name=name, **kw)
        except ValueError:
            rejected.append(sub)      # not part of the decoder: whatever it presents must not be seen upstream
            continue
        subs.append(sub)
        accepted.append((id(sub.memory_map), tuple(granted)))
        if rng.random() < 0.1:
            try:
                dec.add(sub, name=f"again{i}")   # the same subordinate again: refused, and nothing may change
            except ValueError:
                pass
        if rng.random() < 0.12:
            # another interface object carrying the same memory map (a second port onto the same peripheral) is
            # offered to the same decoder: refused - the map is already a window - and nothing may change
            twin = csr.Interface(addr_width=k, data_width=dw, path=(f"twin{i}",))
            twin.memory_map = sub.memory_map
            try:
                dec.add(twin, name=f"twin{i}")
            except ValueError:
                rejected.append(twin)
        if case.get("elaborate_between_adds") and rng.random() < 0.3:
            from amaranth.hdl import Fragment
            Fragment.get(dec, None)   # bring-up elaboration of a partly populated decoder; more windows follow
        if case.get("query_between_adds") and rng.random() < 0.5:
            mm_ = dec.bus.memory_map
            list(mm_.window_patterns()), list(mm_.windows()), list(mm_.all_resources()), mm_.decode_address(0)
    by_map = {id(s.memory_map): s for s in subs}
    wins = []      # (sub, start, true_end, end)
    for w, _n, (s, e, ratio) in dec.bus.memory_map.windows():
        sub = by_map[id(w)]
        wins.append((sub, s, s + (1 << sub.addr_width), e))
        topo.append((s, e, sub.addr_width))
    mon = Mon()
    reported = {(id(w_), (s_, e_, r_)) for w_, _n, (s_, e_, r_) in dec.bus.memory_map.windows()}
    mon.run(lambda: mon.ok("add_result_reported", all(a in reported for a in accepted),
                           f"ranges returned by accepted add() calls {[a[1] for a in accepted if a not in reported][:3]} are not "
                           f"windows of the decoder's memory map"))
    if mon.violations:
        return mon.result(summary={"aw": aw, "dw": dw, "stim": case["stim_seed"]})
    bus = dec.bus
    edges = sorted({a for _s, s, t, e in wins for a in (s, s - 1, t - 1, t, e - 1, e) if 0 <= a < (1 << aw)})
    pending = [0] * len(wins)          # data each conforming subordinate must present next cycle
    st = {"strobed": set(), "prev_sel": None}

    async def bench(ctx):
        for c in range(case["cycles"]):
            mon.cycle = c
            addr = rng.choice(edges) if edges and rng.random() < 0.5 else rng.randrange(1 << aw)
            r_stb, w_stb = int(rng.random() < 0.6), int(rng.random() < 0.5)
            w_data = bits(rng, dw)
            ctx.set(bus.addr, addr)
            ctx.set(bus.r_stb, r_stb)
            ctx.set(bus.w_stb, w_stb)
            ctx.set(bus.w_data, w_data)
            for j, (sub, _s, _t, _e) in enumerate(wins):
                ctx.set(sub.r_data, pending[j])
            for sub in rejected:
                ctx.set(sub.r_data, bits(rng, dw))
            mon.log({"c": c, "addr": addr, "r_stb": r_stb, "w_stb": w_stb, "w_data": w_data, "sub_r_data": list(pending)})
            sel = None
            zone = "outside"
            for j, (sub, s, t, e) in enumerate(wins):
                if s <= addr < t:
                    sel, zone = j, "span"
                elif t <= addr < e:
                    sel, zone = j, "padding"
            n_strobed = 0
            for j, (sub, s, t, e) in enumerate(wins):
                got_r, got_w = ctx.get(sub.r_stb), ctx.get(sub.w_stb)
                n_strobed += int(bool(got_r or got_w))
                if j == sel and zone == "padding":
                    mon.count("padding_zone_not_asserted")
                    continue
                exp_r = r_stb if j == sel else 0
                exp_w = w_stb if j == sel else 0
                mon.eq("route_r_stb", got_r, exp_r, f"subordinate {j} window [{s},{t}) r_stb at addr {addr}")
                mon.eq("route_w_stb", got_w, exp_w, f"subordinate {j} window [{s},{t}) w_stb at addr {addr}")
                if j == sel and (r_stb or w_stb):
                    st["strobed"].add(j)
                    mon.eq("fwd_addr", ctx.get(sub.addr), addr & ((1 << sub.addr_width) - 1),
                           f"subordinate {j} must see the low {sub.addr_width} address bits of {addr}")
                    if w_stb:
                        mon.eq("fwd_w_data", ctx.get(sub.w_data), w_data, f"subordinate {j} w_data")
            mon.ok("one_hot", n_strobed <= 1, f"{n_strobed} subordinates strobed at addr {addr}")
            if sel is None:
                mon.count("unassigned_no_strobe")      # route_* above proved: nobody strobed
            # upstream read data: that of the subordinate read in the previous cycle (others idle -> zero)
            exp_rd = pending[st["prev_sel"]] if st["prev_sel"] is not None else 0
            mon.eq("r_data_upstream", ctx.get(bus.r_data), exp_rd, "bus.r_data vs addressed subordinate's read data")
            # conforming subordinates: data one cycle after their read strobe, zero otherwise
            nxt = [0] * len(wins)
            st["prev_sel"] = None
            if sel is not None and zone == "span" and r_stb:
                nxt[sel] = bits(rng, dw) | 1 if dw > 1 else 1
                st["prev_sel"] = sel
            pending[:] = nxt
            await ctx.tick()

    top = Top({"dec": dec})
    if rng.random() < 0.2:
        top.unclocked = ("dec",)       # the decoder is purely combinational
        mon.count("decoder_in_a_stopped_clock_domain")
    simulate(top, bench, mon)
    mon.count("cycles", mon.cycle + 1)
    mon.bin("n_windows", len(wins))
    if any(e > t for _s, s, t, e in wins):
        mon.bin("features", "padded_window")
    summary = {"kind": "bare", "aw": aw, "dw": dw, "al": case["al"], "windows": topo, "stim": case["stim_seed"]}
    return mon.result(nontrivial=len(wins) >= 2 and len(st["strobed"]) == len(wins), summary=summary)


# ------------------------------------------------------------------------------------------ diff

def run_diff(case, rng):
    dw = case["dw"]
    probes = []          # tree-side probes in creation order
    muxes = []
    st = {"n": 0, "nontrivial": False}
    subs_mods = {}

    def mk_mux(aw):
        mm = MemoryMap(addr_width=aw, data_width=dw, alignment=rng.choice([0, 0, 1]) if aw > 2 else 0)
        for _ in range(rng.randint(1, 4)):
            width = rng.choice([1, dw, dw + 1, 2 * dw, 3 * dw, rng.randint(1, 3 * dw)])
            p = Probe(width, rng.choice(["r", "w", "rw", "rw"]))
            st["n"] += 1
            try:
                mm.add_resource(p, name=(f"p{st['n']}",), size=max(1, (width + dw - 1) // dw))
            except ValueError:
                continue
            probes.append(p)
        mux = csr.Multiplexer(mm)
        muxes.append(mux)
        subs_mods[f"mux{len(muxes)}"] = mux
        return mux.bus

    def mk_dec(aw, depth):
        dec = csr.Decoder(addr_width=aw, data_width=dw, alignment=rng.choice([0, 0, 1, 2]) if aw > 3 else 0)
        subs_mods[f"dec{len(subs_mods)}"] = dec
        for _ in range(rng.randint(1, 4)):
            k = rng.randint(1, aw - 1) if aw > 1 else 1
            if k >= aw:
                continue
            child = mk_dec(k, depth - 1) if (depth > 1 and k >= 2 and rng.random() < 0.4) else mk_mux(k)
            kw = {}
            if rng.random() < 0.3:
                kw["addr"] = rng.randrange(1 << aw) // (1 << k) * (1 << k)
            st["n"] += 1
            try:
                dec.add(child, name=None if rng.random() < 0.5 else f"w{st['n']}", **kw)
                if rng.random() < 0.1:
                    try:
                        dec.add(child)               # duplicate add: refused, nothing may change
                    except ValueError:
                        pass
            except ValueError:
                pass      # window does not fit: its registers are simply unreachable from the root
            if rng.random() < 0.15:
                from amaranth.hdl import Fragment
                Fragment.get(dec, None)              # bring-up elaboration before the decoder is complete / nested
                list(dec.bus.memory_map.window_patterns())
        return dec.bus

    root = mk_dec(case["aw"], case["depth"])
    infos = list(root.memory_map.all_resources())
    flat_map = MemoryMap(addr_width=case["aw"], data_width=dw)
    twins = {}
    for info in infos:
        el = info.resource.element
        t = Probe(el.width, el.access)
        flat_map.add_resource(t, name=tuple(str(x) for n in info.path for x in n), addr=info.start,
                              size=info.end - info.start)
        twins[id(info.resource)] = t
        if info.start > 0 and info.end - info.start > 1:
            st["nontrivial"] = True
    flat = csr.Multiplexer(flat_map)
    pairs = [(i.resource, twins[id(i.resource)], i) for i in infos]
    mapped = {a for i in infos for a in range(i.start, i.end)}
    unmapped = [a for a in range(1 << case["aw"]) if a not in mapped]
    mon = Mon()

    def stream():
        while True:
            x = rng.random()
            if x < 0.15 or not infos:
                yield {"addr": rng.randrange(1 << case["aw"]), "r_stb": 0, "w_stb": 0, "w_data": bits(rng, dw)}
                continue
            if x < 0.3 and unmapped:
                yield {"addr": rng.choice(unmapped), "r_stb": int(rng.random() < 0.6), "w_stb": int(rng.random() < 0.6),
                       "w_data": bits(rng, dw)}
                continue
            i = rng.choice(infos)
            kind = rng.choice(["r", "w", "rw"])
            n = i.end - i.start
            stop = n if rng.random() < 0.75 else rng.randint(1, n)
            for k in range(stop):
                while rng.random() < 0.1:
                    yield {"addr": rng.randrange(1 << case["aw"]), "r_stb": 0, "w_stb": 0, "w_data": bits(rng, dw)}
                yield {"addr": i.start + k, "r_stb": int("r" in kind), "w_stb": int("w" in kind), "w_data": bits(rng, dw)}

    gen = stream()

    async def bench(ctx):
        for c in range(case["cycles"]):
            mon.cycle = c
            inp = next(gen)
            for b in (root, flat.bus):
                ctx.set(b.addr, inp["addr"])
                ctx.set(b.r_stb, inp["r_stb"])
                ctx.set(b.w_stb, inp["w_stb"])
                ctx.set(b.w_data, inp["w_data"])
            for p, t, i in pairs:
                if p.element.access.readable() and p.element.width:
                    v = bits(rng, p.element.width)
                    ctx.set(p.element.r_data, v)
                    ctx.set(t.element.r_data, v)
            a, b = ctx.get(root.r_data), ctx.get(flat.bus.r_data)
            mon.log({"c": c, **inp, "tree_r_data": a, "flat_r_data": b})
            mon.eq("diff_r_data", a, b, "bus.r_data of the decoder tree vs the flat multiplexer")
            for p, t, i in pairs:
                if p.element.access.readable():
                    mon.eq("diff_r_stb", ctx.get(p.element.r_stb), ctx.get(t.element.r_stb),
                           f"r_stb of register {i.path} at [{i.start},{i.end})")
                if p.element.access.writable():
                    ws = ctx.get(t.element.w_stb)
                    mon.eq("diff_w_stb", ctx.get(p.element.w_stb), ws, f"w_stb of register {i.path} at [{i.start},{i.end})")
                    if ws and p.element.width:
                        mon.eq("diff_w_data", ctx.get(p.element.w_data), ctx.get(t.element.w_data),
                               f"w_data of register {i.path}")
            await ctx.tick()

    subs_mods["flat"] = flat
    top = Top(subs_mods)
    if rng.random() < 0.2:
        top.unclocked = tuple(k for k in subs_mods if k.startswith("dec"))     # decoders are purely combinational
        mon.count("decoder_in_a_stopped_clock_domain")
    simulate(top, bench, mon)
    mon.count("cycles", mon.cycle + 1)
    mon.bin("n_muxes", len(muxes))
    summary = {"kind": "diff", "aw": case["aw"], "dw": dw,
               "registers": [(tuple(map(str, i.path)), i.start, i.end, i.resource.element.width) for i in infos][:12],
               "muxes": len(muxes), "stim": case["stim_seed"]}
    return mon.result(nontrivial=st["nontrivial"] and len(muxes) >= 2, summary=summary)


LEVEL_TEXT = ("Online per-cycle routing oracle over simulations of the real csr.Decoder with all inputs random, plus a "
              "differential monitor: decoder tree over multiplexers vs one flat multiplexer at the addresses the memory "
              "map reports, same conforming stream, every port compared every cycle.")
LEVEL_NOTE = "Trusted: Amaranth simulator, CPython, windows()/all_resources() as ground truth for addresses (C02/C03), csr.Multiplexer as reference in the differential part (C04/C05)."
TECHNIQUE = "runtime monitoring: per-cycle routing oracle + differential simulation against a flat reference design"
DESIGN_REF = "DESIGN.md section 4, C06"
