# amaranth: UnusedElaboratable=no
"""C05 - CSR multiplexer writes are atomic and reach exactly the addressed register (see work/mux.py)."""
from vmon.work import mux

ID = "C05"
RULE = ("cases = same layout and stimulus space as C04 (all shadow_overlaps limits; padded registers whose last address is "
        "a padding chunk; unaligned placements); the model has no sharing parameter, so every limit must yield the same "
        "trace; distinct = distinct layout+stimulus; non-trivial = run with >= 1 write-strobe evaluation whose "
        "transaction wrote more than one chunk")
ASSUMPTIONS = ["Amaranth simulator is faithful", "timing model S2/A2 of DESIGN.md C05 (models/csrmux.py)",
               "layouts whose shadow_overlaps limit no shadow size can satisfy are refused at elaboration (finding F3, fixed; checked by C19): skipped and counted"]
REQUIRED = ["S2_w_stb", "A2_w_data", "S2_readonly_or_unmapped", "A2_multi_chunk"]


def n_cases(tier):
    return 1200 if tier == "quick" else 16000


def gen_case(rng, tier, idx):
    return mux.gen_layout(rng, tier)


def run_case(case):
    r = mux.run_mux_case(case, mux.C05_MONITORS)
    r["nontrivial"] = r.pop("multi_a2", 0) > 0
    r.pop("multi_a1", None)
    return r


LEVEL_TEXT = ("Online trace monitor over simulations of the real csr.Multiplexer on generated layouts: every register's "
              "write strobe is compared on every cycle with 'one cycle after a write to its last address and never "
              "otherwise', and write data with the chunks written in the recognised transaction.")
LEVEL_NOTE = "Trusted: Amaranth simulator, CPython, models/csrmux.py. Layouts with an unsatisfiable sharing limit are refused at elaboration and skipped here (C19 checks the refusal)."
TECHNIQUE = "runtime monitoring: per-cycle trace checker with a layout-only reference model over randomized simulation"
DESIGN_REF = "DESIGN.md section 4, C04/C05"
