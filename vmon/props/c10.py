# amaranth: UnusedElaboratable=no
"""C10 - Wishbone-to-CSR bridge performs each transfer exactly once, in order, on time.

Trace-specification monitor. A protocol-abiding Wishbone initiator (holds its request until the
acknowledge, then drops it or goes back-to-back; idles with cyc only, stb only or nothing) drives a
real WishboneCSRBridge. CSR side:
  kind "stub": the testbench plays a conforming CSR target (a unique value one cycle after each
               read strobe, zero otherwise);
  kind "real": a real csr.Bridge (multiplexer) over RW registers and read-only registers whose
               value changes every cycle; checks write-visible-at-ack, read-back and snapshot
               atomicity end to end.
"""
import random

from vmon import env  # noqa: F401
from vmon.simkit import Top, Mon, simulate, bits, biased_bits, reset_plan, drive_reset, new_map

from amaranth_soc import csr
from amaranth_soc.csr import action
from amaranth_soc.csr.wishbone import WishboneCSRBridge
from amaranth_soc.memory import MemoryMap

ID = "C10"
RULE = ("cases = CSR data width in {8,16,32,64} x Wishbone width a power-of-two multiple <= 64 x CSR address width up to 8 "
        "x CSR side (stub target | real csr.Bridge over RW and changing read-only registers) x protocol-abiding "
        "initiator stream with every select mask, reads/writes, back-to-back and spaced transfers, cyc-only / stb-only "
        "idles; distinct = distinct geometry+stimulus; non-trivial = run with ratio >= 2 that acknowledged >= 10 "
        "transfers including a partial select mask and a back-to-back pair")
ASSUMPTIONS = ["Amaranth simulator is faithful", "initiator is protocol-abiding (premise of the property)",
               "trace specification of DESIGN.md C10; unselected read lanes are not asserted"]
REQUIRED = ["csr_strobe_exact", "csr_addr", "csr_w_data", "ack_exact", "dat_r_lane", "idle_no_strobe",
            "real_write_visible_at_ack", "real_read_value", "real_snapshot"]


def n_cases(tier):
    return 600 if tier == "quick" else 8000


def gen_case(rng, tier, idx):
    cdw = rng.choice([8, 8, 16, 32, 64])
    wdw = rng.choice([w for w in (8, 16, 32, 64) if w >= cdw])
    ratio = wdw // cdw
    lg = ratio.bit_length() - 1
    caw = rng.randint(max(1, lg), 8) if rng.random() < 0.85 else rng.choice([12, 16])
    return {"kind": "real" if idx % 3 == 2 else "stub", "cdw": cdw, "wdw": wdw, "caw": caw,
            "cycles": (350 if tier == "quick" else 1000) * (8 if rng.random() < 0.04 else 1)}


def run_case(case):
    rng = random.Random(case["stim_seed"])
    cdw, wdw, caw = case["cdw"], case["wdw"], case["caw"]
    ratio = wdw // cdw
    lg = ratio.bit_length() - 1
    mon = Mon(trace_len=ratio + 6)
    real = case["kind"] == "real"
    regs = []                # real: dict(reg, kind, start, nchunks, width)
    if real:
        b = csr.Builder(addr_width=caw, data_width=cdw, granularity=cdw if cdw == 8 else 8)
        space = 1 << caw
        used = 0
        for i in range(rng.randint(1, 6)):
            nch = rng.choice([1, 2, 2, ratio, ratio, min(ratio, 4)])
            nch = max(1, min(nch, ratio))
            width = rng.randint((nch - 1) * cdw + 1, nch * cdw)
            kind = rng.choice(["rw", "ro"])
            fld = csr.Field(action.RW, width) if kind == "rw" else csr.Field(action.R, width)
            reg = csr.Register({"v": fld}, access="rw" if kind == "rw" else "r")
            p2 = 1 << (nch - 1).bit_length()
            if (used + p2 - 1) // p2 * p2 + p2 > space:
                break
            used = (used + p2 - 1) // p2 * p2 + p2
            b.add(f"r{i}", reg)
            regs.append({"reg": reg, "kind": kind, "width": width})
        cbridge = csr.Bridge(b.as_memory_map())
        csr_bus = cbridge.bus
        for info in csr_bus.memory_map.all_resources():
            for r in regs:
                if r["reg"] is info.resource:
                    r["start"], r["end"] = info.start, info.end
        regs = [r for r in regs if "start" in r]
    else:
        csr_bus = csr.Interface(addr_width=caw, data_width=cdw, path=("csr",))
        csr_bus.memory_map = new_map(addr_width=caw, data_width=cdw)
    from vmon.simkit import decoy

    def twin():
        cb = csr.Interface(addr_width=caw, data_width=cdw, path=("twin",))
        cb.memory_map = new_map(addr_width=caw, data_width=cdw)
        return WishboneCSRBridge(cb, data_width=wdw)

    decoy(rng, twin)
    # data_width defaults to the CSR data width
    dut = WishboneCSRBridge(csr_bus, **({} if (wdw == cdw and rng.random() < 0.5) else {"data_width": wdw}))
    wb = dut.wb_bus
    waw = len(wb.adr)
    lane_mask = (1 << cdw) - 1
    st = {"t": None, "req": None, "acked": 0, "partial": 0, "b2b": 0, "last_ack_cycle": -10,
          "stub_pending": 0, "lanes": {}, "uniq": 0, "rw_model": {}, "probe_hist": {}}
    for r in regs:
        if r["kind"] == "rw":
            st["rw_model"][id(r["reg"])] = 0

    def new_request():
        adr = rng.randrange(1 << waw) if waw else 0
        if real and regs and rng.random() < 0.8:
            adr = rng.choice(regs)["start"] >> lg
        selc = rng.choice(["all", "all", "rand", "one", "none"])
        sel = {"all": (1 << ratio) - 1, "rand": bits(rng, ratio), "one": 1 << rng.randrange(ratio), "none": 0}[selc]
        return {"adr": adr, "sel": sel, "we": rng.getrandbits(1), "dat_w": biased_bits(rng, wdw)}

    resets = reset_plan(case["cycles"])

    async def bench(ctx):
        idle_left = 0
        for c in range(case["cycles"]):
            mon.cycle = c
            drive_reset(ctx, c in resets)
            # ---------------- initiator (protocol-abiding)
            if st["req"] is None:
                if idle_left > 0:
                    idle_left -= 1
                    idle = rng.choice(["none", "cyc", "stb"])
                    junk = new_request()
                    drive = {"cyc": int(idle == "cyc"), "stb": int(idle == "stb"), **junk}
                else:
                    st["req"] = new_request()
                    st["t"] = c
                    st["style"] = rng.choice(["registered", "registered", "comb"])
                    st["lanes"] = {}
                    drive = {"cyc": 1, "stb": 1, **st["req"]}
                    if st["last_ack_cycle"] == c - 1:
                        st["b2b"] += 1
                        mon.count("back_to_back_transfers")
            else:
                drive = {"cyc": 1, "stb": 1, **st["req"]}
                if st.get("style") == "comb" and c - st["t"] == ratio + 1:
                    # a master that reacts combinationally to the acknowledge: in the very cycle ACK is high it has
                    # already withdrawn the request (STB alone, or CYC and STB), possibly with other address/data lines
                    drive = {**new_request(), "cyc": rng.choice([0, 1]), "stb": 0}
                    mon.count("requests_withdrawn_in_the_acknowledge_cycle")
            for k, v in drive.items():
                if k == "adr" and not waw:
                    continue
                ctx.set(getattr(wb, k), v)
            # ---------------- CSR target side inputs
            if real:
                for r in regs:
                    if r["kind"] == "ro":
                        v = bits(rng, r["width"])
                        ctx.set(r["reg"].f.v.r_data, v)
                        st["probe_hist"].setdefault(id(r["reg"]), {})[c] = v
            else:
                ctx.set(csr_bus.r_data, st["stub_pending"])
            # ---------------- sample
            g = {"addr": ctx.get(csr_bus.addr), "r_stb": ctx.get(csr_bus.r_stb), "w_stb": ctx.get(csr_bus.w_stb),
                 "w_data": ctx.get(csr_bus.w_data), "r_data": ctx.get(csr_bus.r_data),
                 "ack": ctx.get(wb.ack), "dat_r": ctx.get(wb.dat_r)}
            mon.log({"c": c, "wb": drive, "csr": g, "transfer_started": st["t"]})
            req, t = st["req"], st["t"]
            if req is None:
                mon.ok("idle_no_strobe", g["r_stb"] == 0 and g["w_stb"] == 0,
                       f"CSR strobe (r={g['r_stb']}, w={g['w_stb']}) outside any transfer (cyc={drive['cyc']}, stb={drive['stb']})")
                mon.eq("ack_exact", g["ack"], 0, "ack outside any transfer")
            else:
                k = c - t
                if k < ratio:
                    s = (req["sel"] >> k) & 1
                    exp_r, exp_w = int(s and not req["we"]), int(s and req["we"])
                    mon.ok("csr_strobe_exact", (g["r_stb"], g["w_stb"]) == (exp_r, exp_w),
                           f"transfer step {k}/{ratio}: CSR strobes (r,w)=({g['r_stb']},{g['w_stb']}), expected ({exp_r},{exp_w}) "
                           f"for sel={req['sel']:#b} we={req['we']}")
                    if s:
                        mon.eq("csr_addr", g["addr"], (req["adr"] * ratio + k) & ((1 << caw) - 1),
                               f"CSR address of granule {k} of Wishbone address {req['adr']}")
                        if req["we"]:
                            mon.eq("csr_w_data", g["w_data"], (req["dat_w"] >> (k * cdw)) & lane_mask,
                                   f"CSR write data of granule {k}")
                else:
                    mon.ok("csr_strobe_exact", g["r_stb"] == 0 and g["w_stb"] == 0,
                           f"CSR strobe in step {k} of a {ratio}-granule transfer (more than one access per granule)")
                if 1 <= k <= ratio and (req["sel"] >> (k - 1)) & 1 and not req["we"]:
                    st["lanes"][k - 1] = g["r_data"]          # CSR read data returned for granule k-1
                mon.eq("ack_exact", g["ack"], int(k == ratio + 1),
                       f"ack in step {k} of a transfer (must be high exactly in step ratio+1={ratio + 1})")
                if k == ratio + 1:
                    if not req["we"]:
                        for lane, v in st["lanes"].items():
                            mon.eq("dat_r_lane", (g["dat_r"] >> (lane * cdw)) & lane_mask, v,
                                   f"lane {lane} of dat_r at the acknowledge vs CSR read data of granule {lane}")
                    if real:
                        check_real(ctx, c, req, t, g)
                    st["acked"] += 1
                    if req["sel"] not in (0, (1 << ratio) - 1):
                        st["partial"] += 1
                    mon.bin("transfers", (ratio, "we" if req["we"] else "rd",
                                          "all" if req["sel"] == (1 << ratio) - 1 else "none" if req["sel"] == 0 else "partial"))
                    st["req"], st["t"] = None, None
                    st["last_ack_cycle"] = c
                    idle_left = rng.choice([0, 0, 0, 1, 2, 5])
            if c in resets:
                # warm reset at this clock edge: the bridge (and the registers behind it) start over; the initiator
                # keeps holding its request, which the bridge therefore sees as a transfer starting in the next cycle
                mon.count("warm_resets")
                if st["req"] is not None:
                    st["t"], st["lanes"] = c + 1, {}
                    mon.count("warm_resets_during_a_transfer")
                for rid in st["rw_model"]:
                    st["rw_model"][rid] = 0
            # stub target: a unique value one cycle after a read strobe, zero otherwise
            if not real:
                if g["r_stb"]:
                    st["uniq"] += 1
                    st["stub_pending"] = (bits(rng, cdw) ^ st["uniq"]) & lane_mask or 1
                else:
                    st["stub_pending"] = 0
            await ctx.tick()

    def check_real(ctx, c, req, t, g):
        """End-to-end effects behind a real multiplexer, judged in the acknowledge cycle."""
        base = req["adr"] * ratio
        for r in regs:
            if not (base <= r["start"] and r["end"] <= base + ratio):
                continue
            k0, n = r["start"] - base, r["end"] - r["start"]
            selbits = [(req["sel"] >> (k0 + j)) & 1 for j in range(n)]
            rid = id(r["reg"])
            wmask = (1 << r["width"]) - 1
            if r["kind"] == "rw":
                if req["we"]:
                    if all(selbits):
                        st["rw_model"][rid] = (req["dat_w"] >> (k0 * cdw)) & wmask
                    elif any(selbits):
                        st["rw_model"][rid] = None           # partially written: not modelled until rewritten
                    if st["rw_model"][rid] is not None:
                        mon.eq("real_write_visible_at_ack", ctx.get(r["reg"].f.v.data), st["rw_model"][rid],
                               f"RW register at CSR [{r['start']},{r['end']}) must hold the written value when ack is seen")
                elif all(selbits) and st["rw_model"][rid] is not None:
                    mon.eq("real_read_value", (g["dat_r"] >> (k0 * cdw)) & wmask, st["rw_model"][rid],
                           f"read-back of RW register at CSR [{r['start']},{r['end']})")
            elif not req["we"] and all(selbits):
                snap = st["probe_hist"][rid][t + k0]
                mon.eq("real_snapshot", (g["dat_r"] >> (k0 * cdw)) & wmask, snap,
                       f"{n}-granule read-only register at CSR [{r['start']},{r['end']}) must be returned as the value it "
                       f"presented when its first granule was read (cycle {t + k0})")
                if n > 1:
                    mon.count("real_snapshot_multi_granule")

    subs = {"bridge": dut}
    if real:
        subs["csr"] = cbridge
    simulate(Top(subs), bench, mon)
    mon.count("cycles", mon.cycle + 1)
    mon.count("transfers_acked", st["acked"])
    mon.bin("geometry", (cdw, wdw, caw, case["kind"]))
    summary = {"kind": case["kind"], "cdw": cdw, "wdw": wdw, "caw": caw, "stim": case["stim_seed"],
               "registers": [(r["kind"], r["start"], r["end"], r["width"]) for r in regs]}
    nontrivial = ratio >= 2 and st["acked"] >= 10 and st["partial"] > 0 and st["b2b"] > 0
    return mon.result(nontrivial=nontrivial, summary=summary)


LEVEL_TEXT = ("Online trace-specification monitor over simulations of the real WishboneCSRBridge under a protocol-abiding "
              "initiator: every CSR strobe, address, write data, the acknowledge cycle and the acknowledged data lanes are "
              "checked on every cycle; behind a real multiplexer, write visibility at ack, read-back and snapshot "
              "atomicity are checked end to end.")
LEVEL_NOTE = "Trusted: Amaranth simulator, CPython, the trace specification; the initiator being protocol-abiding is the property's premise."
TECHNIQUE = "runtime monitoring: online trace-specification checker over randomized simulation"
DESIGN_REF = "DESIGN.md section 4, C10"
