# amaranth: UnusedElaboratable=no
"""C09 - Wishbone arbiter is round-robin fair (see work/arb.py).

Liveness is restated as three finite obligations (DESIGN.md C09): (i) exact next-owner function on
every observed free-bus transition, (ii) bounded waiting online, (iii) an offline search over the
merged transition log for a starvation cycle, conclusive only where the log is measured complete.
"""
from vmon.work import arb

ID = "C09"
RULE = ("cases = same arbiter workload as C08; every free-bus transition is compared with the round-robin successor "
        "function; continuous requesters are checked for at most N-1 foreign grants; for N <= 5 the recorded "
        "(owner, request mask, busy) -> owner' log is searched offline for a cycle on which an initiator requests "
        "throughout, the bus is released at least once and it is never granted (N <= 5 recorded); distinct = distinct configuration+"
        "stimulus; non-trivial = run with >= 2 initiators and >= 5 ownership changes")
ASSUMPTIONS = ["Amaranth simulator is faithful", "'no starvation' decided only in its bounded restatement",
               "offline search is conclusive only for N whose transition log is complete (stated in the evidence)"]
REQUIRED = ["next_owner", "bounded_wait", "released_transitions", "ownership_changes"]


def n_cases(tier):
    return 480 if tier == "quick" else 6000


def gen_case(rng, tier, idx):
    return arb.gen_arb(rng, tier, idx, soak_in_quick="unanswered")     # (C08 runs both soak scenarios in its quick tier)


def run_case(case):
    r = arb.run_arb_case(case, arb.C09_MONITORS)
    r["nontrivial"] = case["n"] >= 2 and r.pop("changes", 0) >= 5
    return r


def post_run(results, tier):
    """Offline checker over the merged transition log."""
    by_n = {}
    for r in results:
        for t in r.get("trans", []):
            n, po, mask, busy, o = t
            by_n.setdefault(n, set()).add((po, mask, busy, o))
    violations, ev = [], {}
    for n, ts in sorted(by_n.items()):
        reachable = n * (1 << n) + n * (1 << (n - 1))
        triples = {(po, mask, busy) for po, mask, busy, o in ts}
        nondet = len(ts) - len(triples)
        complete = len(triples) >= reachable
        starving = None
        for i in range(n):
            # edges along which i requests and is neither the owner before nor after
            edges = [(po, o, busy) for po, mask, busy, o in ts if (mask >> i) & 1 and po != i and o != i]
            nodes = {a for a, b, _ in edges} | {b for a, b, _ in edges}
            # a cycle containing a released edge: for each released edge (a->b), is a reachable from b?
            adj = {}
            for a, b, _ in edges:
                adj.setdefault(a, set()).add(b)
            for a, b, busy in edges:
                if busy:
                    continue
                seen, todo = {b}, [b]
                while todo:
                    x = todo.pop()
                    for y in adj.get(x, ()):
                        if y not in seen:
                            seen.add(y)
                            todo.append(y)
                if a in seen:
                    starving = (i, a, b)
                    break
            if starving:
                break
        ev[f"n{n}"] = {"transitions": len(ts), "distinct_source_states": len(triples), "reachable_source_states": reachable,
                       "log_complete": complete, "nondeterministic_sources": nondet,
                       "starvation_cycle": starving, "conclusive": complete and starving is None}
        if starving:
            violations.append({"monitor": "offline_starvation_cycle",
                               "msg": f"N={n}: the observed transitions contain a cycle through the released edge "
                                      f"{starving[1]}->{starving[2]} on which initiator {starving[0]} requests throughout and "
                                      f"is never granted", "detail": {"n": n, "witness": starving}})
        if nondet:
            violations.append({"monitor": "offline_determinism",
                               "msg": f"N={n}: {nondet} (owner, mask, busy) states were observed with two different "
                                      f"successors", "detail": {"n": n}})
    return {"violations": violations, "evidence": ev,
            "counters": {"offline_transitions_checked": sum(len(t) for t in by_n.values())}}


LEVEL_TEXT = ("Online monitor of the exact round-robin successor on every free-bus transition and of bounded waiting, plus an "
              "offline cycle search over the recorded transition log; liveness itself is out of reach of finite runs and is "
              "claimed only in this bounded restatement.")
LEVEL_NOTE = "Trusted: Amaranth simulator, CPython, the successor oracle; offline search conclusive only for N with a complete log (see evidence post_run)."
TECHNIQUE = "runtime monitoring: online next-owner/bounded-wait checker + offline checker over the recorded transition log"
DESIGN_REF = "DESIGN.md section 4, C09"
