# amaranth: UnusedElaboratable=no
"""C16 - GPIO pins follow their mode table, inputs are delayed exactly, pins are independent.

A real gpio.Peripheral under conforming CSR traffic on Mode / Input / Output / SetClr (addresses
taken from bus.memory_map.all_resources()), pin inputs random on every cycle. Oracle: multiplexer
timing model (models/csrmux.py) composed with a per-pin model of the mode table, the synchroniser
delay and the set/clear codes; every pin's oe / alt_mode (and o while oe is high) and every bus read
value are compared on every cycle.
"""
import random

from vmon import env  # noqa: F401
from vmon.simkit import Top, Mon, simulate, bits
from vmon.models.csrmux import MuxModel
from vmon.work.csrdev import CsrDriver, assemble

from amaranth_soc import gpio

ID = "C16"
RULE = ("cases = gpio.Peripheral with 1-20 pins, data width 8/16/32, input_stages 0-3, address width as small as the "
        "register map allows up to +3; conforming transactions on Mode/Input/Output/SetClr (complete or abandoned, "
        "idle gaps, unmapped accesses) with per-pin values all different, pin inputs random per cycle; distinct = "
        "distinct configuration+stimulus; non-trivial = run in which a SetClr write set one pin while clearing another, "
        "every pin mode occurred, and an Input read was compared while inputs were changing")
ASSUMPTIONS = ["Amaranth simulator is faithful", "multiplexer timing model (C04/C05) composed with the per-pin model",
               "pin.o is compared only while pin.oe is high (the property says 'disabled', not what a disabled pin carries)"]
REQUIRED = ["pin_oe", "pin_o_when_enabled", "alt_mode", "read_data", "input_delay", "setclr_applied", "mode_written",
            "output_written"]


def n_cases(tier):
    return 200 if tier == "quick" else 2400


def gen_case(rng, tier, idx):
    pins = rng.choice([1, 2, 3, 4, 5, 8, 9, 12, 16, 17, 20, 31, 32, 33])
    dw = rng.choice([8, 8, 16, 32, 64])
    return {"pins": pins, "dw": dw, "stages": rng.choice([0, 1, 1, 2, 2, 3, 4, 5, 6, 9]), "aw_extra": rng.choice([0, 0, 1, 3]),
            "cycles": (400 if tier == "quick" else 1000) * (6 if rng.random() < 0.04 else 1)}


def min_aw(pins, dw):
    tot = 0
    for width in (2 * pins, pins, pins, 2 * pins):
        size = (width + dw - 1) // dw
        p2 = 1 << (size - 1).bit_length()
        tot = (tot + p2 - 1) // p2 * p2 + p2
    return max(1, (tot - 1).bit_length())


def run_case(case):
    rng = random.Random(case["stim_seed"])
    pins, dw, stages = case["pins"], case["dw"], case["stages"]
    aw = min_aw(pins, dw) + case["aw_extra"]
    from vmon.simkit import decoy
    decoy(rng, lambda: gpio.Peripheral(pin_count=pins, addr_width=aw, data_width=dw, input_stages=stages))
    from vmon.simkit import omit
    dut = gpio.Peripheral(**omit(rng, "gpio.Peripheral", pin_count=pins, addr_width=aw, data_width=dw, input_stages=stages))
    from vmon.simkit import decoy_after
    other = decoy_after(rng, lambda: gpio.Peripheral(pin_count=max(1, pins - 1), addr_width=aw + 1, data_width=dw,
                                                     input_stages=(stages + rng.choice([1, 2, 3])) % 4))
    bus = dut.bus
    mon = Mon()
    widths = {"Mode": 2 * pins, "Input": pins, "Output": pins, "SetClr": 2 * pins}
    access = {"Mode": "rw", "Input": "r", "Output": "rw", "SetClr": "w"}
    regs = []
    for i in bus.memory_map.all_resources():
        name = str(i.path[-1][-1])
        regs.append({"start": i.start, "end": i.end, "width": widths[name], "access": access[name], "name": name})
    regs.sort(key=lambda r: r["start"])
    idx = {r["name"]: k for k, r in enumerate(regs)}
    model = MuxModel(regs, dw)

    def coverage():
        for r in regs:
            mon.ok("register_covers_all_pins", (r["end"] - r["start"]) * dw >= r["width"],
                   f"register {r['name']} is {r['width']} bits wide but the memory map gives it only addresses "
                   f"[{r['start']},{r['end']}) of {dw} bits: some pins have no bus address")
            mon.ok("register_covers_all_pins", getattr(bus.memory_map.decode_address(r["start"]), "element").width == r["width"],
                   f"register {r['name']}: element width differs from the documented {r['width']} bits")

    mon.run(coverage)
    if mon.violations:
        return mon.result(summary={"pins": pins, "dw": dw, "stages": stages, "aw": aw})

    def data_hook(i, r):
        return bits(rng, r["width"])

    drv = CsrDriver(rng, regs, aw, dw, data_hook=data_hook, p_idle=0.1, p_unmapped=0.05, p_abort=0.15)
    st = {"mode": 0, "out": 0, "hist": [0] * (stages + 1), "modes_seen": set(), "set_and_clear": False,
          "input_cmp_changing": False}
    pmask = (1 << pins) - 1

    from vmon.simkit import reset_plan, drive_reset
    resets = reset_plan(case["cycles"])
    async_pins = random.Random(case["stim_seed"] + ":async").random() < 0.4

    async def bench(ctx):
        for c in range(case["cycles"]):
            mon.cycle = c
            inp = drv.next()
            drive_reset(ctx, c in resets)
            if c in resets:
                inp = drv.idle()          # warm reset: idle bus cycle, the transaction in progress is abandoned
                drv.restart()
            ctx.set(bus.addr, inp["addr"])
            ctx.set(bus.r_stb, inp["r_stb"])
            ctx.set(bus.w_stb, inp["w_stb"])
            ctx.set(bus.w_data, inp["w_data"])
            i_vec = bits(rng, pins)          # the level at the clock edge that ends this cycle
            glitch = async_pins and c > 0 and rng.random() < 0.7     # (the first rising edge comes after half a period)
            first = bits(rng, pins) if glitch else i_vec
            for n in range(pins):
                ctx.set(dut.pins[n].i, (first >> n) & 1)
            st["hist"] = (st["hist"] + [i_vec])[-(stages + 1):]
            delayed = st["hist"][0]                      # level `stages` cycles ago (0 before that)
            vals = [0] * 4
            vals[idx["Mode"]], vals[idx["Input"]], vals[idx["Output"]] = st["mode"], delayed, st["out"]
            exp = model.expect(inp, vals)
            got = ctx.get(bus.r_data)
            mon.log({"c": c, **inp, "i": i_vec, "mode": st["mode"], "out": st["out"], "r_data": got})
            kind, v = exp["r_data"]
            if kind != "unknown":
                mon.eq("read_data", got, v, f"bus.r_data ({kind}); mode={st['mode']:#x} input={delayed:#x} out={st['out']:#x}")
                if model.prev is not None and model.by_addr.get(model.prev[0]["addr"], (None,))[0] == idx["Input"]:
                    mon.count("input_delay")
                    if len(set(st["hist"])) > 1:
                        st["input_cmp_changing"] = True
            alt = ctx.get(dut.alt_mode)
            for n in range(pins):
                m_n = (st["mode"] >> (2 * n)) & 3
                o_n = (st["out"] >> n) & 1
                st["modes_seen"].add(m_n)
                exp_oe = {0: 0, 1: 1, 2: 1 - o_n, 3: 0}[m_n]
                oe = ctx.get(dut.pins[n].oe)
                mon.eq("pin_oe", oe, exp_oe, f"pin {n} oe in mode {m_n} with output bit {o_n}")
                mon.eq("alt_mode", (alt >> n) & 1, int(m_n == 3), f"alt_mode[{n}] in mode {m_n}")
                if exp_oe:
                    mon.eq("pin_o_when_enabled", ctx.get(dut.pins[n].o), o_n if m_n == 1 else 0,
                           f"pin {n} o while driven (mode {m_n}, output bit {o_n})")
            # register writes that fire in this cycle take effect at the clock edge
            mode, out = st["mode"], st["out"]
            for name in ("Mode", "Output", "SetClr"):
                k = idx[name]
                if exp["w_stb"].get(k):
                    payload = exp["w_data"].get(k)
                    if payload is None or len(payload) != regs[k]["end"] - regs[k]["start"]:
                        raise AssertionError("driver produced an incomplete write transaction")
                    val = assemble(payload, dw, regs[k]["width"])
                    if name == "Mode":
                        mode = val
                        mon.count("mode_written")
                    elif name == "Output":
                        out = val
                        mon.count("output_written")
                    else:
                        sets = clrs = 0
                        for n in range(pins):
                            code = (val >> (2 * n)) & 3
                            if code == 1:
                                sets |= 1 << n
                            elif code == 2:
                                clrs |= 1 << n
                        if (sets & ~out) and (clrs & out):
                            st["set_and_clear"] = True
                        out = (out | sets) & ~clrs & pmask
                        mon.count("setclr_applied")
            st["mode"], st["out"] = mode, out
            model.advance(inp, vals)
            if c in resets:
                # Mode and Output return to their initial values; the input synchroniser is not reset (its
                # flip-flops are declared reset-less), so the pin history carries on
                st["mode"], st["out"] = 0, 0
                model.reset()
                mon.count("warm_resets")
            if glitch:
                # pins that are not synchronous to the clock: they change once or twice inside the cycle (before and/or
                # after the falling edge) and only the level present at the rising edge counts
                t1 = rng.choice([0.1, 0.25, 0.4, 0.45])
                t2 = rng.choice([0.55, 0.6, 0.75, 0.9])
                await ctx.delay(t1 * 1e-6)
                mid = rng.choice([i_vec, bits(rng, pins), pmask, 0])
                for n in range(pins):
                    ctx.set(dut.pins[n].i, (mid >> n) & 1)
                await ctx.delay((t2 - t1) * 1e-6)
                for n in range(pins):
                    ctx.set(dut.pins[n].i, (i_vec >> n) & 1)
                mon.count("cycles_with_pin_changes_inside_the_cycle")
            await ctx.tick()

    simulate(Top({"gpio": dut}), bench, mon)
    mon.count("cycles", mon.cycle + 1)
    mon.bin("config", (pins, dw, stages))
    mon.bin("stages", stages)
    summary = {"pins": pins, "dw": dw, "stages": stages, "aw": aw, "stim": case["stim_seed"],
               "registers": [(r["name"], r["start"], r["end"]) for r in regs]}
    nontrivial = st["set_and_clear"] and st["modes_seen"] == {0, 1, 2, 3} and st["input_cmp_changing"]
    return mon.result(nontrivial=nontrivial, summary=summary)


LEVEL_TEXT = ("Online monitor over simulations of the real gpio.Peripheral: every pin's oe/alt_mode (o while driven) and every "
              "bus read value are predicted on every cycle by the multiplexer timing model composed with a per-pin model, "
              "under conforming register traffic with random pin inputs.")
LEVEL_NOTE = "Trusted: Amaranth simulator, CPython, models/csrmux.py + the per-pin model."
TECHNIQUE = "runtime monitoring: per-cycle composed reference model (multiplexer timing + pin model) over randomized simulation"
DESIGN_REF = "DESIGN.md section 4, C16"
