"""Check driver: shards cases over worker processes, aggregates, decides the verdict,
writes evidence and replay files.

Usage (through /verif/check):
    ./check C15 --tier quick
    ./check C15 --replay replays/C15/0-17.json

Verdicts (DESIGN.md section 0):
    exit 0  held on everything explored (KNOWN-FINDING lines may be printed)
    exit 1  VIOLATION property=<id> replay=<path>
    exit 2  INCONCLUSIVE property=<id> <why>
"""
import argparse
import concurrent.futures
import hashlib
import importlib
import json
import os
import subprocess
import sys
import time

VERIF = os.path.dirname(os.path.dirname(os.path.abspath(__file__)))
PY = sys.executable
NPROC = min(16, os.cpu_count() or 1)
WATCHDOG_S = {"quick": 1500, "thorough": 4 * 3600}


def load_prop(pid):
    return importlib.import_module(f"vmon.props.{pid.lower()}")


def load_findings():
    path = os.path.join(VERIF, "known_findings.json")
    if not os.path.exists(path):
        return []
    with open(path) as f:
        return json.load(f)["findings"]


def classify(pid, violation, findings):
    """Return the known (unfixed) finding entry a violation belongs to, or None.

    A violation only matches by its *mechanism* key (component + failure class), which the
    monitor derives from where and how the failure happened, never from seeds or values.
    'fixed' entries suppress nothing."""
    mech = violation.get("mechanism")
    if mech is None:
        return None
    for f in findings:
        if f.get("status") != "known":
            continue
        if f["property"] == pid and f["mechanism"] == mech:
            return f
    return None


def run_shard(pid, tier, seed, shard, nshards, n_cases, timeout):
    # the last shard runs under `python -O` (assert statements and __debug__ blocks compiled away): the properties
    # are about the library, not about an interpreter flag
    opt = ["-OO"] if (nshards > 1 and shard == nshards - 1) else []      # asserts compiled away, docstrings stripped
    cmd = [PY, *opt, "-m", "vmon.worker", pid, "--tier", tier, "--seed", str(seed),
           "--shard", f"{shard}/{nshards}", "--cases", str(n_cases)]
    env = dict(os.environ)
    env["PYTHONPATH"] = VERIF + os.pathsep + env.get("PYTHONPATH", "")
    # string hashing differs per shard (deterministically: shard k runs with PYTHONHASHSEED=k), so that behaviour of
    # the repository that depends on set / dict iteration order is exercised under 16 orders instead of one
    env["PYTHONHASHSEED"] = str(shard)
    if nshards > 2 and shard == nshards - 2:
        # one shard runs with warnings of the library under test turned into errors (`python -W error`)
        env["VMON_WARNINGS_AS_ERRORS"] = "1"
    try:
        p = subprocess.run(cmd, capture_output=True, text=True, timeout=timeout, env=env,
                           cwd=VERIF)
    except subprocess.TimeoutExpired:
        return {"shard": shard, "error": f"watchdog {timeout}s expired", "results": []}
    results = []
    for line in p.stdout.splitlines():
        if line.startswith("{"):
            try:
                results.append(json.loads(line))
                results[-1]["hashseed"] = shard
                results[-1]["python_O"] = bool(opt)
                results[-1]["warnings_as_errors"] = bool(env.get("VMON_WARNINGS_AS_ERRORS"))
            except json.JSONDecodeError:
                pass
    err = None
    if p.returncode != 0:
        err = f"worker exit {p.returncode}: {p.stderr[-2000:]}"
    return {"shard": shard, "error": err, "results": results}


def merge_counters(dst, src):
    for k, v in src.items():
        dst[k] = dst.get(k, 0) + v


def main(argv=None):
    ap = argparse.ArgumentParser()
    ap.add_argument("prop")
    ap.add_argument("--tier", default=os.environ.get("VERIF_TIER", "quick"),
                    choices=["quick", "thorough"])
    ap.add_argument("--seed", type=int, default=int(os.environ.get("VERIF_SEED", "0")))
    ap.add_argument("--replay")
    ap.add_argument("--cases", type=int, help="override the tier's case budget")
    ap.add_argument("--jobs", type=int, default=NPROC)
    ap.add_argument("--no-evidence", action="store_true")
    args = ap.parse_args(argv)
    pid = args.prop.upper()

    sys.path.insert(0, VERIF)
    if args.replay:
        return replay(pid, args.replay)

    from vmon import env  # noqa: F401  (asserts the tree under test)
    prop = load_prop(pid)
    t0 = time.time()
    n_cases = args.cases or prop.n_cases(args.tier)
    nshards = max(1, min(args.jobs, n_cases))
    timeout = WATCHDOG_S[args.tier]

    with concurrent.futures.ThreadPoolExecutor(nshards) as ex:
        futs = [ex.submit(run_shard, pid, args.tier, args.seed, k, nshards, n_cases, timeout)
                for k in range(nshards)]
        shards = [f.result() for f in futs]

    findings = load_findings()
    counters, bins = {}, {}
    results, errors = [], []
    for sh in shards:
        if sh["error"]:
            errors.append(f"shard {sh['shard']}: {sh['error']}")
        results.extend(sh["results"])
    results.sort(key=lambda r: r["idx"])

    nontrivial_keys, all_keys = set(), set()
    skipped = {}
    violations, known_hits = [], {}
    samples = []
    for r in results:
        merge_counters(counters, r.get("counters", {}))
        for b, items in r.get("bins", {}).items():
            bins.setdefault(b, set()).update(items)
        if r.get("skipped"):
            skipped[r["skipped"]] = skipped.get(r["skipped"], 0) + 1
        all_keys.add(r["key"])
        if r.get("nontrivial"):
            nontrivial_keys.add(r["key"])
        if len(samples) < 4 and r.get("summary") is not None and not r.get("skipped"):
            samples.append({"case_index": r["idx"], **r["summary"]})
        for v in r.get("violations", []):
            f = classify(pid, v, findings)
            if f is not None:
                known_hits.setdefault(f["mechanism"], [f, 0, v])
                known_hits[f["mechanism"]][1] += 1
            else:
                violations.append((r, v))

    # extra whole-run analysis hook (e.g. C09 offline graph search over the merged log)
    post = getattr(prop, "post_run", None)
    post_info = None
    if post is not None:
        post_info = post(results, args.tier)
        for v in post_info.get("violations", []):
            violations.append(({"idx": -1, "case": {"post_run": True}}, v))
        merge_counters(counters, post_info.get("counters", {}))

    missing = set(range(n_cases)) - {r["idx"] for r in results}
    inconclusive = []
    if errors:
        inconclusive.append("; ".join(errors)[:1500])
    if missing:
        inconclusive.append(f"{len(missing)} cases produced no result")
    for name in getattr(prop, "REQUIRED", []):
        if counters.get(name, 0) <= 0:
            inconclusive.append(f"deciding monitor/counter '{name}' observed nothing")
    if len(nontrivial_keys) < 2:
        inconclusive.append("fewer than 2 distinct non-trivial cases")

    wall = time.time() - t0
    for mech, (f, n, v) in sorted(known_hits.items()):
        print(f"KNOWN-FINDING: property={pid} {f['id']} {f['what']} "
              f"[mechanism={mech}; seen {n}x this run; e.g. {v.get('msg', '')[:160]}]")

    replay_paths = []
    for r, v in violations[:20]:
        d = os.path.join(VERIF, "replays", pid)
        os.makedirs(d, exist_ok=True)
        tag = hashlib.sha1(json.dumps(v, sort_keys=True, default=str).encode()).hexdigest()[:8]
        path = os.path.join(d, f"{args.tier}-{args.seed}-{r['idx']}-{tag}.json")
        with open(path, "w") as fh:
            json.dump({"property": pid, "tier": args.tier, "seed": args.seed, "idx": r["idx"],
                       "hashseed": r.get("hashseed", 0), "python_O": r.get("python_O", False),
                       "warnings_as_errors": r.get("warnings_as_errors", False), "case": r.get("case"),
                       "violation": v}, fh, indent=1,
                      default=str)
        replay_paths.append(os.path.relpath(path, VERIF))

    if not args.no_evidence:
        ev = {
            "property_id": pid,
            "tier": args.tier,
            "seed": args.seed,
            "level": "exploration",
            "coverage": {
                "evaluations": len(results),
                "distinct_cases": len(all_keys),
                "distinct_nontrivial": len(nontrivial_keys),
                "rule": prop.RULE,
                "samples": samples,
                "monitor_counters": dict(sorted(counters.items())),
                "bins_hit": {b: len(s) for b, s in sorted(bins.items())},
                "bins_detail": {b: sorted(s)[:64] for b, s in sorted(bins.items())
                                if len(s) <= 64},
                "skipped": skipped,
                "string_hash_seeds": sorted({r.get("hashseed", 0) for r in results}),
                "cases_run_under_python_O": sum(1 for r in results if r.get("python_O")),
                "cases_run_with_library_warnings_as_errors": sum(1 for r in results if r.get("warnings_as_errors")),
                "exhaustive": False,
                "known_findings_seen": {m: n for m, (f, n, v) in known_hits.items()},
                "verdict": ("violated" if violations else
                            "inconclusive" if inconclusive else "held-on-explored"),
                "inconclusive_reasons": inconclusive,
            },
            "assumptions": list(prop.ASSUMPTIONS),
            "wall_s": round(wall, 2),
            "violations": len(violations),
        }
        if post_info is not None:
            ev["coverage"]["post_run"] = post_info.get("evidence", {})
        extra = getattr(prop, "evidence_extra", None)
        if extra is not None:
            ev["coverage"].update(extra(results, counters, bins, args.tier))
        os.makedirs(os.path.join(VERIF, "evidence"), exist_ok=True)
        with open(os.path.join(VERIF, "evidence", f"{pid}.json"), "w") as fh:
            json.dump(ev, fh, indent=1, default=str)

    brief = ", ".join(f"{k}={v}" for k, v in sorted(counters.items())[:12])
    if violations:
        groups = {}
        for r, v in violations:
            key = (v.get("monitor"), v.get("mechanism"))
            groups[key] = groups.get(key, 0) + 1
        for (mname, mech), cnt in sorted(groups.items(), key=lambda kv: -kv[1])[:25]:
            print(f"  {cnt:5d} x monitor={mname} mechanism={mech}")
        for r, v in violations[:5]:
            print(f"  violation case={r['idx']} monitor={v.get('monitor')} {v.get('msg', '')[:300]}")
        for p in replay_paths[:20]:
            print(f"VIOLATION property={pid} replay={p}")
        return 1
    if inconclusive:
        print(f"INCONCLUSIVE property={pid} " + " | ".join(inconclusive))
        return 2
    print(f"HELD property={pid} tier={args.tier} seed={args.seed} cases={len(results)} "
          f"nontrivial={len(nontrivial_keys)} wall={wall:.1f}s :: {brief}")
    return 0


def replay(pid, path):
    with open(path) as fh:
        rec = json.load(fh)
    want = str(rec.get("hashseed", 0))
    want_O = bool(rec.get("python_O"))
    want_W = bool(rec.get("warnings_as_errors"))
    if os.environ.get("PYTHONHASHSEED") != want or bool(sys.flags.optimize) != want_O or \
            bool(os.environ.get("VMON_WARNINGS_AS_ERRORS")) != want_W:
        # the case ran under this string-hash seed (and possibly under python -O): re-run the replay in an interpreter
        # started the same way
        e = dict(os.environ, PYTHONHASHSEED=want)
        e.pop("VMON_WARNINGS_AS_ERRORS", None)
        if want_W:
            e["VMON_WARNINGS_AS_ERRORS"] = "1"
        return subprocess.run([PY, *(["-OO"] if want_O else []), "-m", "vmon.cli", pid, "--replay", path], env=e,
                              cwd=VERIF).returncode
    from vmon import env  # noqa: F401
    if (rec.get("case") or {}).get("kind") == "import":
        # the recorded violation is the library failing to import in this interpreter mode
        from vmon.worker import crash_violation
        try:
            load_prop(pid)
        except Exception as e:
            v = crash_violation(e)
            if v is None:
                raise
            print(json.dumps(v, indent=1, default=str)[:4000])
            print(f"VIOLATION property={pid} replay={path}")
            return 1
        print(f"replay of {path}: no violation reproduced")
        return 0
    prop = load_prop(pid)
    if rec.get("case") is None or rec["case"].get("post_run"):
        print(f"replay file {path} records a whole-run analysis; re-run the check with "
              f"VERIF_SEED={rec['seed']} --tier {rec['tier']}")
        return 2
    from vmon.worker import run_one
    r = run_one(prop, rec["case"], rec["idx"])
    findings = load_findings()
    bad = [v for v in r["violations"] if classify(pid, v, findings) is None]
    for v in r["violations"]:
        print(json.dumps(v, indent=1, default=str)[:4000])
    if bad:
        print(f"VIOLATION property={pid} replay={path}")
        return 1
    print(f"replay of {path}: no violation reproduced")
    return 0


if __name__ == "__main__":
    sys.exit(main())
