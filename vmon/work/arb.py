# amaranth: UnusedElaboratable=no
"""Shared workload of C08 / C09: a real wishbone.Arbiter with 1-6 initiators whose every input
is random on every cycle (initiators are not assumed to behave), plus sticky / greedy / locking
request schedules, and random target responses. The owner is identified from the shared bus
alone: each initiator's adr carries its index in the low bits.
"""
import random

from vmon import env  # noqa: F401
from vmon.simkit import Top, Mon, Stop, simulate, bits, biased_bits, spell_features, new_map

from amaranth import Value
from amaranth_soc import wishbone
from amaranth_soc.memory import MemoryMap

C08_MONITORS = {"owner_identified", "bus_carries_owner", "sel_fanout", "optional_defaults", "owner_response",
                "others_isolated", "no_preemption", "owner_dat_r"}
C09_MONITORS = {"next_owner", "bounded_wait"}

ALL_FEATURES = ["err", "rty", "stall", "lock", "cti", "bte"]


def gen_arb(rng, tier, idx=None, soak_in_quick=True):
    n = rng.choice([1, 2, 2, 3, 3, 4, 4, 5, 6, 7, 8, 9]) if rng.random() < 0.94 else rng.choice([12, 16, 17])
    soak = None
    if idx is not None and (idx % (480 if tier == "quick" else 600)) in (3, 5, 9) and (tier != "quick" or soak_in_quick):
        # soak scenarios (two unanswered transfers and one burst per quick run, ten times that per thorough run): anything that counts cycles or transfers
        # behind the scenes (a watchdog, a fairness time-out) needs tens of thousands of cycles to show
        soak = "soak_unanswered" if idx % (480 if tier == "quick" else 600) in (3, 9) else "soak_burst"
        if tier == "quick" and soak_in_quick == "unanswered" and soak != "soak_unanswered":
            soak = None
    if soak is not None:
        n = rng.choice([2, 3])
    quiet = None
    if idx is not None and idx % 40 == 7:
        # a long quiet stretch in the middle of traffic: nobody requests for more than 2**10 (sometimes 2**12) cycles
        start = rng.randint(50, 200)
        quiet = [start, start + rng.choice([1100, 1300, 2100, 4200])]
    dw = rng.choice([8, 16, 32, 64])
    gran = rng.choice([g for g in (8, 16, 32, 64) if g <= dw])
    afeat = [f for f in ALL_FEATURES if rng.random() < 0.5]
    intrs = []
    for i in range(n):
        ig = rng.choice([g for g in (8, 16, 32, 64) if gran <= g <= dw])
        feat = [f for f in ALL_FEATURES if (f in ("err", "rty") and f in afeat) or rng.random() < 0.5]
        intrs.append({"gran": ig, "features": feat,
                      "behaviour": rng.choice(["random", "random", "sticky", "greedy", "locker", "polite"])})
    # every initiator's adr carries its index in the low bits: the address must be wide enough for that
    case = {"n": n, "aw": max(rng.choice([4, 6, 8, 16, 30]), max(1, (n - 1).bit_length())), "dw": dw, "gran": gran, "features": afeat, "intrs": intrs,
            "scenario": "normal", "cycles": (300 if tier == "quick" else 900) * (8 if rng.random() < 0.04 else 1)}
    x = rng.random()
    if x < 0.06 and n >= 2:
        # an owner parks the bus under LOCK for hundreds of cycles (slow locked read-modify-write)
        case["scenario"] = "long_park"
        if "lock" not in afeat:
            afeat.append("lock")
        k = rng.randrange(n)
        if "lock" not in intrs[k]["features"]:
            intrs[k]["features"].append("lock")
        intrs[k]["behaviour"] = "parker"
        case["cycles"] = rng.choice([900, 1500, 2600])       # (the longest ones park for more than 2**10 / 2**11 cycles)
    elif x < 0.2 and n >= 2:
        # the same interface object registered twice (it gets two turns per rotation); only objects without a STALL
        # input are duplicated (with STALL the unchanged arbiter drives the later slot's placeholder, which is outside
        # what C08 states for distinct initiators)
        cand = [k for k in range(n) if "stall" not in intrs[k]["features"]]
        if cand:
            case["scenario"] = "duplicate_slot"
            k = rng.choice(cand)
            pos = rng.randint(k + 1, n)
            case["slots"] = list(range(pos)) + [k] + list(range(pos, n))
    elif x < 0.26:
        # the target leaves strobes unanswered for hundreds of cycles (wait states)
        case["scenario"] = "slow_target"
        intrs[rng.randrange(n)]["behaviour"] = "patient"
        case["cycles"] = rng.choice([900, 1500])
    elif x < 0.32 and ("rty" in afeat or "err" in afeat):
        # the target answers nothing but RTY (or ERR) for a long stretch: a busy flash controller being polled
        case["scenario"] = "retry_storm"
        intrs[rng.randrange(n)]["behaviour"] = "patient"
        case["cycles"] = rng.choice([600, 900])
    if soak == "soak_unanswered":
        # one transfer stays unanswered for more than 2**16 cycles (flash erase, a bridge to a slow bus)
        case.update(scenario="soak_unanswered", cycles=66600, slots=None)
        case.pop("slots")
        if "lock" not in afeat and rng.random() < 0.7:
            afeat.append("lock")       # (with LOCK the bus is re-arbitrated in the pause that follows the answered transfer)
        for d in intrs:
            d["behaviour"] = "greedy"
        intrs[rng.randrange(n)]["behaviour"] = "patient"
    elif soak == "soak_burst":
        # one owner runs a locked burst of a few thousand acknowledged transfers (a DMA block) while others request
        case.update(scenario="soak_burst", cycles=2700)
        case.pop("slots", None)
        if "lock" not in afeat:
            afeat.append("lock")
        for d in intrs:
            d["behaviour"] = "greedy"
        k = rng.randrange(n)
        intrs[k]["behaviour"] = "burster"
        if "lock" not in intrs[k]["features"]:
            intrs[k]["features"].append("lock")
    if quiet is not None and soak is None:
        case["quiet"] = quiet
        case["cycles"] = max(case["cycles"], quiet[1] + 300)
    return case


def fanout(sel, n_in, ratio):
    out = 0
    for b in range(n_in):
        if (sel >> b) & 1:
            out |= ((1 << ratio) - 1) << (b * ratio)
    return out


def run_arb_case(case, judged):
    rng = random.Random(case["stim_seed"])
    n, aw, dw, gran = case["n"], case["aw"], case["dw"], case["gran"]
    afeat = set(case["features"])
    from vmon.simkit import decoy

    def twin():
        t = wishbone.Arbiter(addr_width=aw, data_width=dw, granularity=gran, features=afeat)
        for i, d in enumerate(case["intrs"]):
            t.add(wishbone.Interface(addr_width=aw, data_width=dw, granularity=d["gran"], features=set(d["features"]),
                                     path=(f"t{i}",)))
        return t

    decoy(rng, twin)
    from vmon.simkit import omit
    arb = wishbone.Arbiter(**omit(rng, "wishbone", addr_width=aw, data_width=dw, granularity=gran,
                                  features=spell_features(rng, afeat)))
    intrs = []
    rejected = []
    upstream, origins = [], []
    slots = case.get("slots") or list(range(n))
    objs = {}
    tied = {}       # initiator -> {member: constant value} for members replaced by compliant constants
    for pos_, i in enumerate(slots):
        d = case["intrs"][i]
        if i in objs:
            try:
                arb.add(objs[i])                 # the same interface object again: a second slot for it
            except ValueError:
                slots = [s_ for k_, s_ in enumerate(slots) if k_ != pos_]      # refusing a duplicate is fine too
            continue
        origin = rng.choice(["plain", "plain", "plain", "arbiter_port", "decoder_window", "decoder_window"])
        if origin == "arbiter_port":
            # the requester is the shared bus of another (inner) arbiter: two-level arbitration. Its signals are
            # driven here directly, as the inner arbiter would
            ib = wishbone.Arbiter(addr_width=aw, data_width=dw, granularity=d["gran"],
                                  features=spell_features(rng, d["features"])).bus
        else:
            ib = wishbone.Interface(addr_width=aw, data_width=dw, granularity=d["gran"],
                                    features=spell_features(rng, d["features"]), path=(f"i{i}",))
        if origin == "decoder_window":
            # the requester is at the same time a window of an upstream decoder (a bus matrix): it carries a
            # memory map and is known to that decoder
            try:
                gb = (dw // d["gran"]).bit_length() - 1
                ib.memory_map = new_map(addr_width=max(1, aw + gb), data_width=d["gran"])
                up = wishbone.Decoder(addr_width=aw + 2, data_width=dw, granularity=d["gran"],
                                      features={f for f in d["features"] if f in ("err", "rty", "stall")})
                up.add(ib, name=f"port{i}")
                upstream.append(up)
            except (ValueError, TypeError):
                pass
        origins.append(origin)
        objs[i] = ib
        if origin == "plain" and d["behaviour"] not in ("parker", "burster", "patient", "locker") and rng.random() < 0.12:
            # output members tied off with constants the signature accepts as compliant (an initiator that never locks /
            # always bursts the same way / a port that is not used in this build): modelled as constant request values
            from amaranth import Const
            feat_ = set(d["features"])
            what_ = rng.choice([f_ for f_ in ("lock", "cti", "bte") if f_ in feat_] * 2 + ["cyc"])
            if what_ == "lock":
                v_ = rng.getrandbits(1)
                spelled_ = rng.choice([v_, bool(v_), Const(v_, 1)])
            elif what_ == "cti":
                v_ = rng.choice([0, 1, 2, 7])
                spelled_ = rng.choice([wishbone.CycleType(v_), Const(v_, 3)])
            elif what_ == "bte":
                v_ = rng.getrandbits(2)
                spelled_ = rng.choice([wishbone.BurstTypeExt(v_), Const(v_, 2)])
            else:
                v_ = 0
                spelled_ = rng.choice([0, Const(0, 1)])
            setattr(ib, what_, spelled_)
            tied[i] = {what_: v_}
        if rng.random() < 0.15:
            # an incompatible initiator is refused; the arbiter keeps being used afterwards and the refused
            # interface stays alive in the design, driving its own request lines
            lacking = [f for f in ("err", "rty") if f in afeat]
            if lacking and rng.random() < 0.7:
                bad = wishbone.Interface(addr_width=aw, data_width=dw, granularity=d["gran"],
                                         features=set(d["features"]) - {rng.choice(lacking)}, path=(f"bad{i}",))
            else:
                bad = wishbone.Interface(addr_width=aw + 1, data_width=dw, granularity=d["gran"], path=(f"bad{i}",))
            try:
                arb.add(bad)
            except ValueError:
                rejected.append(bad)
        arb.add(ib)
        intrs.append(ib)
        if rng.random() < 0.08:
            from amaranth.hdl import Fragment
            Fragment.get(arb, None)        # bring-up elaboration with only some of the initiators attached
    from vmon.simkit import decoy_after
    decoy_after(rng, lambda: wishbone.Arbiter(addr_width=aw + 1, data_width=dw, granularity=gran,
                                              features=set(ALL_FEATURES) - afeat))
    bus = arb.bus
    idx_bits = max(1, (n - 1).bit_length())
    mon = Mon()
    has_lock = "lock" in afeat
    trans = set()
    st = {"owner": None, "busy": None, "mask": None, "changes": 0, "waiting": [None] * n, "hold": [0] * n,
          "held": [None] * n, "released_transitions": 0}

    def fire(name, msg, **detail):
        if name in judged:
            mon.fail(name, msg, **detail)
        mon.count("foreign_monitor_fired:" + name)

    def check(name, cond, msg):
        mon.counters[name] += 1
        if not cond:
            fire(name, msg() if callable(msg) else msg)

    def setv(ctx, sig, v):
        ctx.set(Value.cast(sig), v)

    def getv(ctx, sig):
        return ctx.get(Value.cast(sig))

    def drive(i, c):
        """Request signals of initiator i for this cycle."""
        d = case["intrs"][i]
        feat = d["features"]
        nsel = dw // d["gran"]
        beh = d["behaviour"]
        if st["hold"][i] > 0 and st["held"][i] is not None:
            st["hold"][i] -= 1
            r = {k_: v_ for k_, v_ in st["held"][i].items() if k_ != "gap_done"}
            if beh == "locker" and "lock" in feat:
                r["stb"] = rng.getrandbits(1)          # between transfers of a locked cycle
            return r
        if beh == "parker":
            # one transfer, then cyc & lock held with stb low for a long stretch, then release
            phase = st.setdefault("park_phase", 0)
            st["park_phase"] = (phase + 1) % 3
            r = {"adr": i, "dat_w": 0, "sel": 0, "we": 0, "cyc": 1, "stb": int(phase == 0), "lock": 1}
            if phase == 0:
                st["hold"][i] = rng.randint(1, 3)
            elif phase == 1:
                st["hold"][i] = rng.choice([40, 270, 300, 520] + ([1100, 1100, 2100] if case["cycles"] >= 2600 else []))
            else:
                r.update(cyc=0, lock=0)
                st["hold"][i] = rng.randint(0, 3)
            for f, v in (("cti", 0), ("bte", 0)):
                if f in feat:
                    r[f] = v
            st["held"][i] = r
            return r
        if beh == "burster":
            r = {"adr": (rng.getrandbits(aw) >> idx_bits << idx_bits | i) & ((1 << aw) - 1), "dat_w": bits(rng, dw),
                 "sel": bits(rng, nsel), "we": rng.getrandbits(1), "cyc": 1, "stb": 1, "lock": 1}
            for f, v in (("cti", 0), ("bte", 0)):
                if f in feat:
                    r[f] = v
            st["hold"][i] = 2500
            st["held"][i] = r
            return r
        if beh == "patient":
            # holds its request until answered, however long the target takes
            prev_ = st["held"][i]
            if prev_ is not None and prev_.get("stb") and not prev_.get("gap_done") and \
                    rng.random() < (0.5 if case.get("scenario") != "soak_unanswered" else 1.0):
                # ... then a pause between two transfers of the same bus cycle: CYC stays, STB drops for a few cycles
                r = dict(prev_, stb=0, gap_done=True)
                if "lock" in r:
                    r["lock"] = 0
                st["hold"][i] = rng.randint(0, 2)
                st["held"][i] = r
                return {k_: v_ for k_, v_ in r.items() if k_ != "gap_done"}
            r = {"adr": (rng.getrandbits(aw) >> idx_bits << idx_bits | i) & ((1 << aw) - 1), "dat_w": bits(rng, dw),
                 "sel": bits(rng, nsel), "we": rng.getrandbits(1), "cyc": 1, "stb": 1}
            for f, v in (("lock", 0), ("cti", 0), ("bte", 0)):
                if f in feat:
                    r[f] = v
            st["hold"][i] = rng.choice([20, 280, 300, 600]) if case.get("scenario") != "soak_unanswered" or c > 1000 else 66340 - c
            st["held"][i] = r
            return r
        r = {"adr": (rng.getrandbits(aw) >> idx_bits << idx_bits | i) & ((1 << aw) - 1),
             "dat_w": biased_bits(rng, dw), "sel": biased_bits(rng, nsel), "we": rng.getrandbits(1),
             "cyc": int(rng.random() < 0.45), "stb": int(rng.random() < 0.5)}
        if "lock" in feat:
            r["lock"] = int(rng.random() < 0.3)
        if "cti" in feat:
            r["cti"] = rng.choice([0, 1, 2, 7])
        if "bte" in feat:
            r["bte"] = rng.getrandbits(2)
        if beh == "sticky":
            r["cyc"] = r["stb"] = 1
            st["hold"][i] = rng.randint(1, 6)
        elif beh == "greedy":
            r["cyc"] = int(rng.random() < 0.85)
        elif beh == "locker":
            r["cyc"] = 1
            if "lock" in feat:
                r["lock"] = 1
            st["hold"][i] = rng.randint(1, 5)
        elif beh == "polite":
            r["cyc"] = r["stb"] = int(rng.random() < 0.5)
            if r["cyc"]:
                st["hold"][i] = rng.randint(0, 3)
        if st["hold"][i] == 0 and beh in ("sticky", "locker") and rng.random() < 0.5:
            r["cyc"] = 0                                 # release for a cycle after a held burst ends
            r["stb"] = 0
        st["held"][i] = r
        return r

    from vmon.simkit import reset_plan, drive_reset
    resets = reset_plan(case["cycles"])
    if str(case.get("scenario", "")).startswith("soak"):
        resets = frozenset()       # the soak scenarios exist for long *uninterrupted* conditions

    async def bench(ctx):
        for c in range(case["cycles"]):
            mon.cycle = c
            drive_reset(ctx, c in resets)
            reqs = [drive(i, c) for i in range(n)]
            if case.get("quiet") and case["quiet"][0] <= c < case["quiet"][1]:
                # quiet stretch: every initiator idle (request lines low, the rest whatever it was)
                for i, r in enumerate(reqs):
                    reqs[i] = dict(r, cyc=0, stb=0, **({"lock": 0} if "lock" in r else {}))
                    st["hold"][i], st["held"][i] = 0, None
                mon.count("quiet_cycles")
            for i, r in enumerate(reqs):
                if i in tied:
                    r = reqs[i] = dict(r, **tied[i])
                    mon.count("initiator_cycles_with_a_member_tied_to_a_constant")
                for k, v in r.items():
                    if i not in tied or k not in tied[i]:
                        setv(ctx, getattr(intrs[i], k), v)
            for bad in rejected:      # not an initiator of this arbiter: whatever it does must have no effect
                ctx.set(bad.cyc, rng.getrandbits(1))
                ctx.set(bad.stb, rng.getrandbits(1))
                ctx.set(bad.adr, ((1 << idx_bits) - 1) if (1 << idx_bits) - 1 >= n else rng.getrandbits(len(bad.adr)))
                ctx.set(bad.dat_w, bits(rng, dw))
            resp = {"ack": rng.getrandbits(1), "dat_r": bits(rng, dw)}
            for f in ("err", "rty", "stall"):
                if f in afeat:
                    resp[f] = rng.getrandbits(1)
            if case.get("scenario") == "retry_storm":
                if st.get("storm", 0) > 0:
                    st["storm"] -= 1
                    resp["ack"] = 0
                    kind_ = st["storm_kind"]
                    for f in ("err", "rty"):
                        if f in afeat:
                            resp[f] = int(f == kind_)
                elif rng.random() < 0.03:
                    st["storm"] = rng.choice([70, 130, 260])
                    st["storm_kind"] = rng.choice([f for f in ("rty", "err") if f in afeat])
            if case.get("scenario") == "soak_burst":
                resp["ack"] = 1
                for f in ("err", "rty", "stall"):
                    if f in afeat:
                        resp[f] = 0
            if case.get("scenario") == "soak_unanswered":
                if c == 0:
                    st["silent"] = 66300
            if case.get("scenario") in ("slow_target", "soak_unanswered"):
                if st.get("silent", 0) > 0:
                    st["silent"] -= 1
                    resp["ack"] = 0
                    for f in ("err", "rty"):
                        if f in afeat:
                            resp[f] = 0
                elif rng.random() < 0.02:
                    st["silent"] = rng.choice([100, 280, 400, 600])
            for k, v in resp.items():
                setv(ctx, getattr(bus, k), v)
            # ---- identify the owner from the shared bus
            b_adr = getv(ctx, bus.adr)
            o = b_adr & ((1 << idx_bits) - 1)
            mask = sum(r["cyc"] << i for i, r in enumerate(reqs))
            mon.log({"c": c, "owner_seen": o, "request_mask": mask, "resp": resp,
                     "reqs": [(r["cyc"], r["stb"], r.get("lock")) for r in reqs]})
            check("owner_identified", o < n, lambda: f"shared bus adr {b_adr:#x} carries no initiator's index")
            ro, feat_o = reqs[o], case["intrs"][o]["features"]
            got = {k: getv(ctx, getattr(bus, k)) for k in ("adr", "dat_w", "we", "stb", "cyc")}
            check("bus_carries_owner", got == {k: ro[k] for k in got},
                  lambda: f"shared bus {got} differs from owner {o}'s request { {k: ro[k] for k in got} }")
            ratio = case["intrs"][o]["gran"] // gran
            check("sel_fanout", getv(ctx, bus.sel) == fanout(ro["sel"], dw // case["intrs"][o]["gran"], ratio),
                  lambda: f"shared sel {getv(ctx, bus.sel):#b} is not owner {o}'s sel {ro['sel']:#b} fanned out x{ratio}")
            for f in ("lock", "cti", "bte"):
                if f in afeat:
                    check("optional_defaults", getv(ctx, getattr(bus, f)) == ro.get(f, 0),
                          lambda: f"shared {f}={getv(ctx, getattr(bus, f))} but owner {o} "
                                  f"{'drives ' + str(ro.get(f)) if f in feat_o else 'lacks it (default 0)'}")
            # ---- responses
            for i, ib in enumerate(intrs):
                feat = case["intrs"][i]["features"]
                if i == o:
                    exp = {"ack": resp["ack"]}
                    if "err" in feat:
                        exp["err"] = resp.get("err", 0)
                    if "rty" in feat:
                        exp["rty"] = resp.get("rty", 0)
                    if "stall" in feat:
                        exp["stall"] = resp["stall"] if "stall" in afeat else 1 - resp["ack"]
                    gotr = {k: getv(ctx, getattr(ib, k)) for k in exp}
                    check("owner_response", gotr == exp, lambda: f"owner {o} sees {gotr}, target drives {exp}")
                    check("owner_dat_r", getv(ctx, ib.dat_r) == resp["dat_r"], lambda: f"owner {o} dat_r")
                else:
                    exp = {"ack": 0}
                    if "err" in feat:
                        exp["err"] = 0
                    if "rty" in feat:
                        exp["rty"] = 0
                    if "stall" in feat:
                        exp["stall"] = 1
                    gotr = {k: getv(ctx, getattr(ib, k)) for k in exp}
                    check("others_isolated", gotr == exp,
                          lambda: f"initiator {i} (not owner; owner is {o}) sees {gotr}, expected {exp}")
            # ---- ownership transitions
            busy = int(ro["cyc"] and ((ro.get("lock", 0) or ro["stb"]) if has_lock else 1))
            ns = len(slots)
            if st["owner"] is None:
                check("owner_identified", o == slots[0], lambda: f"initial owner is {o}, expected initiator {slots[0]}")
                st["possible"] = {0}
            else:
                po, pbusy, pmask = st["owner"], st["busy"], st["mask"]
                # the grant is a slot; with an interface registered twice the slot is tracked as a set of candidates
                expected = set()
                for s_ in st["possible"]:
                    nxt = s_
                    if not pbusy:
                        for d in range(1, ns):
                            j = (s_ + d) % ns
                            if (pmask >> slots[j]) & 1:
                                nxt = j
                                break
                    expected.add(nxt)
                exp_objs = sorted({slots[s_] for s_ in expected})
                if pbusy:
                    check("no_preemption", o == po,
                          lambda: f"owner changed {po}->{o} while {po}'s bus cycle was in progress")
                else:
                    check("next_owner", o in exp_objs,
                          lambda: f"bus free, owner {po} (slot candidates {sorted(st['possible'])} of {slots}), requests "
                                  f"{pmask:#b}: next owner {o}, round-robin says {exp_objs}")
                    st["released_transitions"] += 1
                st["possible"] = {s_ for s_ in expected if slots[s_] == o} or {s_ for s_ in range(ns) if slots[s_] == o}
                if n <= 5 and ns == n:
                    trans.add((n, po, pmask, pbusy, o))
                if o != po:
                    st["changes"] += 1
                    for i in range(n):
                        if st["waiting"][i] is not None and i != o:
                            st["waiting"][i] += 1
            # bounded waiting: a continuous requester sees at most N-1 other grants before its own
            for i in range(n):
                if i == o or not reqs[i]["cyc"]:
                    st["waiting"][i] = None
                else:
                    if st["waiting"][i] is None:
                        st["waiting"][i] = 0
                    check("bounded_wait", st["waiting"][i] <= len(slots) - 1,
                          lambda: f"initiator {i} has requested continuously while {st['waiting'][i]} other grants happened")
            mon.bin(f"state:n{n}", (o, mask, busy))
            st["owner"], st["busy"], st["mask"] = o, busy, mask
            if c in resets:
                # warm reset: the grant returns to the first slot at this edge, whatever the requests are
                st["owner"], st["waiting"] = None, [None] * n
                mon.count("warm_resets")
            await ctx.tick()

    simulate(Top({"arb": arb}), bench, mon)
    mon.count("cycles", mon.cycle + 1)
    mon.count("ownership_changes", st["changes"])
    mon.count("released_transitions", st["released_transitions"])
    mon.bin("n_initiators", n)
    for o_ in origins:
        mon.bin("initiator_origin", o_)
    mon.bin("scenario", case.get("scenario", "normal"))
    mon.bin("arbiter_features", tuple(sorted(afeat)))
    summary = {"n": n, "aw": aw, "dw": dw, "gran": gran, "features": sorted(afeat),
               "intrs": [(d["gran"], sorted(d["features"]), d["behaviour"]) for d in case["intrs"]],
               "stim": case["stim_seed"]}
    return mon.result(summary=summary, changes=st["changes"], trans=sorted(trans))
