"""Conforming CSR traffic generator shared by the device-level monitors (C14, C16, C01).

Produces one dict(addr, r_stb, w_stb, w_data) per cycle. Transactions are whole-register, ascending
from the first chunk; a transaction is either completed (every address of the register visited) or
abandoned before its last address, so the effect of every write is fully predictable from the bus
trace alone (no dependence on stale shadow contents). Idle gaps, accesses to unmapped addresses and
simultaneous read+write transactions are interleaved.
"""


class CsrDriver:
    def __init__(self, rng, regs, aw, dw, data_hook=None, p_idle=0.15, p_unmapped=0.1, p_abort=0.2):
        """regs: list of dict(start, end, width, access). Addresses are those of the bus being driven."""
        self.rng, self.regs, self.aw, self.dw = rng, regs, aw, dw
        self.data_hook = data_hook
        self.p_idle, self.p_unmapped, self.p_abort = p_idle, p_unmapped, p_abort
        mapped = {a for r in regs for a in range(r["start"], r["end"])}
        self.unmapped = [a for a in range(1 << aw) if a not in mapped]
        self.gen = self._stream()
        self.transactions = 0
        self.rmw_pairs = 0

    def idle(self):
        return {"addr": self.rng.randrange(1 << self.aw), "r_stb": 0, "w_stb": 0,
                "w_data": self.rng.getrandbits(self.dw)}

    def _stream(self):
        rng = self.rng
        while True:
            x = rng.random()
            if x < self.p_idle or not self.regs:
                for _ in range(rng.randint(1, 3)):
                    yield self.idle()
                continue
            if x < self.p_idle + self.p_unmapped and self.unmapped:
                yield {"addr": rng.choice(self.unmapped), "r_stb": rng.getrandbits(1), "w_stb": rng.getrandbits(1),
                       "w_data": rng.getrandbits(self.dw)}
                continue
            i = rng.randrange(len(self.regs))
            r = self.regs[i]
            kinds = [k for k in ("r", "w", "rw") if all(ch in r["access"] for ch in k)] or ["r", "w"]
            kind = rng.choice(kinds)
            if kind == "rw" and rng.random() < 0.3:
                kind = "rmw"        # byte-wise read-modify-write: read chunk k, write chunk k, read chunk k+1, ...
            n = r["end"] - r["start"]
            stop = n if (rng.random() >= self.p_abort or n == 1) else rng.randint(1, n - 1)
            value = self.data_hook(i, r) if self.data_hook else rng.getrandbits(max(1, n * self.dw))
            if rng.random() < 0.1:
                value = rng.choice([0, (1 << (n * self.dw)) - 1, 1 << rng.randrange(n * self.dw)])
            self.transactions += 1
            for k in range(stop):
                while rng.random() < 0.1:
                    yield self.idle()
                if kind == "rmw":
                    yield {"addr": r["start"] + k, "r_stb": 1, "w_stb": 0, "w_data": rng.getrandbits(self.dw)}
                    while rng.random() < 0.15:
                        yield self.idle()
                    yield {"addr": r["start"] + k, "r_stb": 0, "w_stb": 1,
                           "w_data": (value >> (k * self.dw)) & ((1 << self.dw) - 1)}
                    self.rmw_pairs += 1
                    continue
                yield {"addr": r["start"] + k, "r_stb": int("r" in kind), "w_stb": int("w" in kind),
                       "w_data": (value >> (k * self.dw)) & ((1 << self.dw) - 1)}

    def next(self):
        return next(self.gen)

    def restart(self):
        """Abandon whatever transaction is in progress (used around a warm reset)."""
        self.gen = self._stream()


def assemble(chunks, dw, width):
    """Value written by a completed transaction from MuxModel's {chunk: value} payload."""
    v = 0
    for k, x in chunks.items():
        v |= x << (k * dw)
    return v & ((1 << width) - 1)
