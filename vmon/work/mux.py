# amaranth: UnusedElaboratable=no
"""Shared workload of C04 / C05: generated register layouts behind a real csr.Multiplexer,
hostile CSR traffic, per-cycle comparison with models/csrmux.MuxModel.

`judged` selects which monitors decide the calling property; the others are still evaluated
(their counters are reported) but a failure of a non-judged monitor is only counted as
'foreign_monitor_fired' so that each property's verdict stays attributable.
"""
import random

from vmon import env  # noqa: F401
from vmon.simkit import Top, Mon, Stop, simulate, bits, biased_bits
from vmon.models.csrmux import MuxModel, f3_unsatisfiable

from amaranth.lib import wiring
from amaranth.lib.wiring import Out
from amaranth_soc import csr
from amaranth_soc.memory import MemoryMap

C04_MONITORS = {"S1_r_stb", "S3_zero_when_idle", "A1_first_chunk", "A1_snapshot"}
C05_MONITORS = {"S2_w_stb", "A2_w_data", "S2_readonly_or_unmapped"}


class Probe(wiring.Component):
    """Leaf register whose element port is driven / observed by the testbench."""
    def __init__(self, width, access):
        super().__init__({"element": Out(csr.Element.Signature(width, access))})


def gen_layout(rng, tier):
    aw = rng.choice([1, 2, 3, 3, 4, 4, 5, 6, 8])
    dw = rng.choice([1, 2, 3, 4, 7, 8, 8, 8, 16, 32])
    al = rng.choice([0, 0, 0, 1, 2]) if aw >= 3 else 0
    nregs = rng.choice([0, 1, 2, 3, 4, 5, 6, 8])
    maxw = 4
    large = rng.random() < 0.2
    if large:
        # geometries beyond the small obvious ones: wide buses, many registers, registers of many chunks
        aw = rng.choice([7, 8, 9, 10, 12, 14, 16])
        dw = rng.choice([8, 16, 32, 64, 13])
        nregs = rng.choice([8, 12, 16, 24])
        maxw = rng.choice([4, 8, 9, 16, 17])
    regs = []
    for _ in range(nregs):
        width = rng.choice([0, 1, dw - 1, dw, dw + 1, 2 * dw, 2 * dw + 1, 3 * dw, maxw * dw, maxw * dw + 1,
                            rng.randint(0, maxw * dw + 1)])
        width = max(0, width)
        acc = rng.choice(["r", "w", "rw", "rw"])
        place = rng.choice(["implicit", "implicit", "natural", "unaligned", "padded"])
        if rng.random() < 0.07:
            place = "truncated"      # fewer addresses than the register has chunks: its upper bits are unreachable
        if large and rng.random() < 0.6:
            place = "unaligned"          # scattered over the whole (large) address space
        regs.append({"width": width, "access": acc, "place": place,
                     "addr_r": rng.random(), "extra": rng.choice([0, 0, 1, 2]),
                     "alignment": rng.choice([None, None, 0, 1, 2])})
    bank = (not large) and rng.random() < 0.06
    if bank:
        # a bank of many small registers (status / doorbell arrays): with the default sharing limit they all share
        # the same one or two shadow chunks
        n_b = rng.choice([17, 18, 20, 23, 33, 40])
        dw = rng.choice([8, 8, 16, 32])
        aw, al = (2 * n_b - 1).bit_length(), 0
        regs = [{"width": rng.choice([dw, dw, 1, dw - 1, 2 * dw]) if rng.random() < 0.9 else 0,
                 "access": rng.choice(["r", "r", "rw", "rw", "w"]), "place": "implicit", "addr_r": 0.0, "extra": 0,
                 "alignment": None} for _ in range(n_b)]
    return {"aw": aw, "dw": dw, "al": al, "regs": regs,
            "overlaps": (rng.choice([None, None, 0, 1, 2, 3]) if not large else rng.choice([None, 0, 0, 1, 2])) if not bank else
            rng.choice([None, None, None, 20]),
            "mode": rng.choice(["conf", "conf", "conf", "mixed", "raw"]),
            "cycles": (260 if tier == "quick" else 700) * (2 if large else 1) * (8 if rng.random() < 0.04 else 1)}


def build_map(layout, mm=None, first=0, last=None):
    """Build (or continue building) the live memory map; returns (map, skipped adds)."""
    aw, dw, al = layout["aw"], layout["dw"], layout["al"]
    if mm is None:
        mm = MemoryMap(addr_width=aw, data_width=dw, **({} if (al == 0 and (aw + dw) % 2) else {"alignment": al}))
    skipped = 0
    for i, r in list(enumerate(layout["regs"]))[first:last]:
        p = Probe(r["width"], r["access"])
        nchunks = max(1, (r["width"] + dw - 1) // dw)
        size = nchunks + (r["extra"] if r["place"] == "padded" else 0)
        if r["place"] == "truncated" and nchunks >= 2:
            size = max(1, nchunks - 1 - (r["extra"] % 2))
        kw = {}
        if r["place"] == "natural":
            kw["alignment"] = max(0, (size - 1).bit_length())
        elif r["place"] == "padded" and r["alignment"] is not None:
            kw["alignment"] = r["alignment"]
        elif r["place"] == "unaligned":
            a = int(r["addr_r"] * (1 << aw))
            kw["addr"] = a // (1 << al) * (1 << al)
        elif r["place"] == "absolute":
            kw["addr"] = r["addr_abs"]
        try:
            mm.add_resource(p, name=(f"reg{i}",), size=size, **kw)
        except ValueError:
            skipped += 1
    return mm, skipped


def run_mux_case(case, judged):
    rng = random.Random(case["stim_seed"])
    layout = case
    dw, aw = layout["dw"], layout["aw"]
    late = rng.random() < 0.25 and len(layout["regs"]) >= 2
    split = rng.randint(1, len(layout["regs"]) - 1) if late else None
    mm, skipped_adds = build_map(layout, last=split)
    early_dut = None
    if late:
        # the Multiplexer object is created first; the map is not frozen by it, so more registers are added afterwards
        try:
            early_dut = csr.Multiplexer(mm, shadow_overlaps=layout["overlaps"])
        except ValueError:
            early_dut = None
        bringup = early_dut is not None and rng.random() < 0.5
        if bringup:
            # bring-up: the multiplexer is elaborated (and the result thrown away) while its map is still growing
            from amaranth.hdl import Fragment
            try:
                Fragment.get(Top({"bringup": early_dut}), None)
            except ValueError:
                pass
        _mm, more = build_map(layout, mm=mm, first=split)
        skipped_adds += more
    res = list(mm.resources())
    regs = [{"start": s, "end": e, "width": p.element.width, "access": p.element.access.value, "probe": p}
            for p, _n, (s, e) in res]
    ranges_r = [(r["start"], r["end"]) for r in regs if "r" in r["access"]]
    ranges_w = [(r["start"], r["end"]) for r in regs if "w" in r["access"]]
    summary = {"aw": aw, "dw": dw, "al": layout["al"], "overlaps": layout["overlaps"], "mode": layout["mode"],
               "regs": [(r["start"], r["end"], r["width"], r["access"]) for r in regs], "stim": case["stim_seed"]}
    mon = Mon()
    if f3_unsatisfiable(ranges_r, layout["overlaps"]) or f3_unsatisfiable(ranges_w, layout["overlaps"]):
        # no shadow size can satisfy the sharing limit for this unaligned layout: the multiplexer refuses it
        # at elaboration (finding F3, fixed; C19 checks the refusal). Nothing to simulate.
        return mon.result(skipped="shadow_overlaps unsatisfiable for this unaligned layout (refused at elaboration)",
                          summary=summary)
    from vmon.simkit import decoy
    decoy(rng, lambda: csr.Multiplexer(build_map(layout)[0], shadow_overlaps=layout["overlaps"]))
    if rng.random() < 0.3:
        mm.freeze()              # as Decoder.add / csr.Bridge / an explicit freeze() would
        mon.count("frozen_maps")
    # an independent, ACTIVE neighbour multiplexer (same layout, own registers) elaborated before the monitored one
    neighbour = None
    if rng.random() < 0.3 and len(layout["regs"]) <= 8 and layout["aw"] <= 8:
        n_mm, _ = build_map(layout)
        try:
            neighbour = csr.Multiplexer(n_mm, shadow_overlaps=layout["overlaps"])
        except ValueError:
            neighbour = None
    from vmon.simkit import omit
    dut = early_dut if early_dut is not None else csr.Multiplexer(mm, **omit(rng, "csr.Multiplexer", shadow_overlaps=layout["overlaps"]))
    if early_dut is not None:
        mon.count("multiplexers_created_before_their_last_registers")
    bus = dut.bus
    model = MuxModel(regs, dw)
    n = len(regs)
    mapped = sorted(model.by_addr)
    unmapped = [a for a in range(1 << aw) if a not in model.by_addr]
    mode = layout["mode"]
    st = {"multi_chunk_a1_after_change": 0, "multi_chunk_a2": 0}

    def fire(name, msg, **detail):
        if name in judged:
            mon.fail(name, msg, **detail)
        else:
            mon.count("foreign_monitor_fired:" + name)

    # ---- stimulus generator: yields dict(addr, r_stb, w_stb, w_data) per cycle
    def conforming():
        while True:
            x = rng.random()
            if x < 0.12 or not regs:
                for _ in range(rng.randint(1, 3)):
                    yield {"addr": rng.randrange(1 << aw), "r_stb": 0, "w_stb": 0, "w_data": biased_bits(rng, dw)}
                continue
            if x < 0.22 and unmapped:
                yield {"addr": rng.choice(unmapped), "r_stb": int(rng.random() < 0.6),
                       "w_stb": int(rng.random() < 0.6), "w_data": biased_bits(rng, dw)}
                continue
            r = rng.choice(regs)
            kind = rng.choice(["r", "w", "rw", "r", "w", "rmw"])
            length = r["end"] - r["start"]
            stop_after = length if rng.random() < 0.7 else rng.randint(1, length)
            for k in range(stop_after):
                while rng.random() < 0.15:
                    yield {"addr": rng.randrange(1 << aw), "r_stb": 0, "w_stb": 0, "w_data": biased_bits(rng, dw)}
                if mode == "mixed" and rng.random() < 0.06:
                    # protocol breach in the middle of a transaction (monitor must cope)
                    yield {"addr": rng.randrange(1 << aw), "r_stb": int(rng.random() < 0.5),
                           "w_stb": int(rng.random() < 0.5), "w_data": biased_bits(rng, dw)}
                if kind == "rmw":
                    # byte-wise read-modify-write: chunk k is read, then (after a cycle or a few) written, then chunk k+1
                    yield {"addr": r["start"] + k, "r_stb": 1, "w_stb": 0, "w_data": biased_bits(rng, dw)}
                    while rng.random() < 0.2:
                        yield {"addr": rng.randrange(1 << aw), "r_stb": 0, "w_stb": 0, "w_data": biased_bits(rng, dw)}
                    yield {"addr": r["start"] + k, "r_stb": 0, "w_stb": 1, "w_data": biased_bits(rng, dw)}
                    mon.counters["read_modify_write_chunk_pairs"] += 1
                    continue
                yield {"addr": r["start"] + k, "r_stb": int("r" in kind), "w_stb": int("w" in kind),
                       "w_data": biased_bits(rng, dw)}

    def raw():
        while True:
            a = rng.choice(mapped) if mapped and rng.random() < 0.7 else rng.randrange(1 << aw)
            yield {"addr": a, "r_stb": int(rng.random() < 0.5), "w_stb": int(rng.random() < 0.5),
                   "w_data": biased_bits(rng, dw)}

    gen = raw() if mode == "raw" else conforming()
    from vmon.simkit import reset_plan, drive_reset
    resets = reset_plan(layout["cycles"])

    async def bench(ctx):
        nonlocal gen
        for c in range(layout["cycles"]):
            mon.cycle = c
            inp = next(gen)
            drive_reset(ctx, c in resets)
            if c in resets:
                # warm reset: an idle cycle on the bus, whatever transaction was in progress is abandoned
                inp = {"addr": rng.randrange(1 << aw), "r_stb": 0, "w_stb": 0, "w_data": biased_bits(rng, dw)}
                gen = raw() if mode == "raw" else conforming()
            ctx.set(bus.addr, inp["addr"])
            ctx.set(bus.r_stb, inp["r_stb"])
            ctx.set(bus.w_stb, inp["w_stb"])
            ctx.set(bus.w_data, inp["w_data"])
            if neighbour is not None:       # unrelated traffic next door must never be seen on the monitored bus
                nb = neighbour.bus
                ctx.set(nb.addr, rng.choice(mapped) if mapped else 0)
                ctx.set(nb.r_stb, rng.getrandbits(1))
                ctx.set(nb.w_stb, rng.getrandbits(1))
                ctx.set(nb.w_data, bits(rng, dw))
                for p_, _n, _r in n_res:
                    if p_.element.access.readable() and p_.element.width:
                        ctx.set(p_.element.r_data, bits(rng, p_.element.width) | 1)
            vals = []
            for r in regs:
                v = biased_bits(rng, r["width"])
                vals.append(v)
                if "r" in r["access"] and r["width"]:
                    ctx.set(r["probe"].element.r_data, v)
            exp = model.expect(inp, vals)
            got_r_data = ctx.get(bus.r_data)
            mon.log({"c": c, **inp, "r_data": got_r_data, "reg_values": vals})
            # S1
            for i, e in exp["r_stb"].items():
                got = ctx.get(regs[i]["probe"].element.r_stb)
                mon.counters["S1_r_stb"] += 1
                if got != e:
                    fire("S1_r_stb", f"register {i} [{regs[i]['start']},{regs[i]['end']}) r_stb={got}, expected {e} "
                                     f"(bus addr={inp['addr']} r_stb={inp['r_stb']})", reg=i)
            # S2 / A2
            for i, e in exp["w_stb"].items():
                got = ctx.get(regs[i]["probe"].element.w_stb)
                mon.counters["S2_w_stb"] += 1
                if got != e:
                    fire("S2_w_stb", f"register {i} [{regs[i]['start']},{regs[i]['end']}) w_stb={got}, expected {e} "
                                     f"(one cycle after a write to its last address and never otherwise)", reg=i)
                if e and i in exp["w_data"]:
                    wd = ctx.get(regs[i]["probe"].element.w_data) if regs[i]["width"] else 0
                    for k, v in exp["w_data"][i].items():
                        lo, hi = k * dw, min(regs[i]["width"], (k + 1) * dw)
                        if hi <= lo:
                            continue
                        m_ = (1 << (hi - lo)) - 1
                        mon.counters["A2_w_data"] += 1
                        if (wd >> lo) & m_ != v & m_:
                            fire("A2_w_data", f"register {i}: w_data chunk {k} = {(wd >> lo) & m_:#x}, written {v & m_:#x}",
                                 reg=i, chunk=k)
                    if len(exp["w_data"][i]) > 1:
                        st["multi_chunk_a2"] += 1
            if model.prev is not None and model.prev[0]["w_stb"]:
                hit = model.by_addr.get(model.prev[0]["addr"])
                if hit is None or "w" not in regs[hit[0]]["access"]:
                    mon.counters["S2_readonly_or_unmapped"] += 1   # S2 above already proved: no w_stb anywhere
            # S3 / A1
            kind, v = exp["r_data"]
            if kind == "zero":
                mon.counters["S3_zero_when_idle"] += 1
                if got_r_data != 0:
                    fire("S3_zero_when_idle", f"bus.r_data={got_r_data:#x} in a cycle that does not follow a read of a "
                                              f"readable register's chunk")
            elif kind == "first":
                mon.counters["A1_first_chunk"] += 1
                if got_r_data != v:
                    fire("A1_first_chunk", f"bus.r_data={got_r_data:#x}, expected slice 0 = {v:#x} of the value presented "
                                           f"in the first-chunk read cycle")
            elif kind == "snap":
                mon.counters["A1_snapshot"] += 1
                p_inp, p_vals = model.prev
                i, k = model.by_addr[p_inp["addr"]]
                if p_vals[i] != model.prev_capture:
                    st["multi_chunk_a1_after_change"] += 1
                if got_r_data != v:
                    fire("A1_snapshot", f"bus.r_data={got_r_data:#x}, expected slice {k} = {v:#x} of the value register {i} "
                                        f"presented when its first chunk was read (atomic snapshot)", reg=i, chunk=k)
            else:
                mon.count("A1_not_asserted_nonconforming")
            if inp["r_stb"] and inp["w_stb"]:
                mon.count("simultaneous_read_write_cycles")
            model.advance(inp, vals)
            if c in resets:
                model.reset()
                mon.count("warm_resets")
            await ctx.tick()

    n_res = list(neighbour.bus.memory_map.resources()) if neighbour is not None else []
    if neighbour is not None:
        mon.count("runs_with_active_neighbour_multiplexer")
        simulate(Top([("neighbour", neighbour), ("mux", dut)]), bench, mon)
    else:
        simulate(Top({"mux": dut}), bench, mon)
    mon.count("cycles", mon.cycle + 1)
    mon.count("adds_refused_while_building", skipped_adds)
    mon.count("A1_multi_chunk_after_value_change", st["multi_chunk_a1_after_change"])
    mon.count("A2_multi_chunk", st["multi_chunk_a2"])
    mon.bin("overlaps", layout["overlaps"])
    mon.bin("mode", mode)
    for r in regs:
        rs = 1 << max(0, (r["end"] - r["start"] - 1).bit_length())
        if r["start"] % rs:
            mon.bin("layout_features", "unaligned")
        if r["end"] - r["start"] > max(1, (r["width"] + dw - 1) // dw):
            mon.bin("layout_features", "padded")
        if r["width"] == 0:
            mon.bin("layout_features", "zero_width")
        if r["width"] % dw:
            mon.bin("layout_features", "not_multiple_of_bus_width")
    return mon.result(summary=summary, multi_a1=st["multi_chunk_a1_after_change"], multi_a2=st["multi_chunk_a2"])
