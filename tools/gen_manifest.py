#!/usr/bin/env python3
"""Regenerate MANIFEST.json from the property modules that exist under vmon/props.

A property with a module that defines MANIFEST_TEXT is claimed; every other property of
properties.jsonl is listed under not_applicable with the reason given in PENDING below.
Run:  /venv/bin/python tools/gen_manifest.py
"""
import importlib
import json
import os
import sys

VERIF = os.path.dirname(os.path.dirname(os.path.abspath(__file__)))
sys.path.insert(0, VERIF)

NOT_CLAIMED_REASON = {}


def main():
    props = [json.loads(l) for l in open(os.path.join(VERIF, "properties.jsonl"))]
    checks, na = [], []
    for p in props:
        pid = p["id"]
        path = os.path.join(VERIF, "vmon", "props", pid.lower() + ".py")
        if not os.path.exists(path):
            na.append({"property_id": pid,
                       "reason": NOT_CLAIMED_REASON.get(
                           pid, "runtime monitor for this property is not built yet (planned in "
                                "DESIGN.md section 4); not claimed until it runs silent on the unchanged tree")})
            continue
        src = open(path).read()
        meta = {}
        # the modules import the repository; read the manifest strings without importing
        import ast
        tree = ast.parse(src)
        for node in tree.body:
            if isinstance(node, ast.Assign) and len(node.targets) == 1 and \
                    isinstance(node.targets[0], ast.Name):
                name = node.targets[0].id
                if name in ("LEVEL_TEXT", "LEVEL_NOTE", "TECHNIQUE", "DESIGN_REF"):
                    meta[name] = ast.literal_eval(node.value)
        checks.append({
            "property_id": pid,
            "quick_cmd": f"./check {pid} --tier quick",
            "thorough_cmd": f"./check {pid} --tier thorough",
            "evidence_file": f"evidence/{pid}.json",
            "replay_cmd_template": f"./check {pid} --replay {{path}}",
            "engine": "vmon",
            "level_claimed": {
                "category": "exploration",
                "text": meta.get("LEVEL_TEXT", "held on the executions explored; see evidence"),
                "design_ref": meta.get("DESIGN_REF", f"DESIGN.md section 4, {pid}"),
            },
            "level_note": meta.get("LEVEL_NOTE", "Trusted: Amaranth simulator, CPython, the reference model."),
            "technique": meta.get("TECHNIQUE", "runtime monitoring"),
        })
    manifest = {
        "version": 1,
        "setup_cmd": "/venv/bin/python -c \"import amaranth, amaranth_soc; print('ok')\"",
        "hooks": {
            "guard": "AMARANTH_SOC_VERIF",
            "enable": "no source hooks are needed: every observation point is a public port, a public "
                      "query or a class attribute patched from the harness; checks export "
                      "AMARANTH_SOC_VERIF=1 anyway",
            "baseline_off_cmd": "cd /repo && env -u AMARANTH_SOC_VERIF /venv/bin/python -m pytest -q "
                                "-p no:cacheprovider --timeout=900",
            "source_commits": [],
            "add_only": True,
        },
        "engines": [{
            "name": "vmon",
            "path": "vmon/",
            "serves_properties": [c["property_id"] for c in checks],
            "kind_free_text": "runtime monitoring: online trace checkers with reference models over "
                              "Amaranth simulations of the generated hardware; recording proxies, "
                              "invariant walkers and differential models over API call histories; "
                              "exception-class / explicit-raise / step-count sanitizers",
        }],
        "checks": checks,
        "notes": "All checks rebuild from /repo's working tree (VERIF_REPO overrides for self-validation). "
                 "Exit 0 held / 1 VIOLATION / 2 INCONCLUSIVE. known_findings.json lists genuine defects "
                 "by mechanism.",
        "not_applicable": na,
    }
    with open(os.path.join(VERIF, "MANIFEST.json"), "w") as fh:
        json.dump(manifest, fh, indent=1)
        fh.write("\n")
    print(f"claimed {len(checks)}, not claimed {len(na)}")


if __name__ == "__main__":
    main()
