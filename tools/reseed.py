#!/usr/bin/env python3
"""Re-run every kept seeded change (seeded/*/) against the check of the property it breaks (and the checks recorded as
catching it); prints one line per seed and a summary. Does not modify meta.json.

    /venv/bin/python tools/reseed.py [--jobs 3] [--only substring]
"""
import argparse
import concurrent.futures
import glob
import json
import os
import subprocess
import sys

VERIF = os.path.dirname(os.path.dirname(os.path.abspath(__file__)))


def one(d, jobs):
    m = json.load(open(os.path.join(d, "meta.json")))
    if m.get("no_longer_manifests"):
        return m["id"], "retired", None
    props = sorted({m["breaks_property"]} | {k.split("@")[0] for k in m.get("caught_by", [])})
    p = subprocess.run(["/venv/bin/python", os.path.join(VERIF, "tools", "seedtest.py"), d, "--props", ",".join(props),
                        "--jobs", str(jobs)], capture_output=True, text=True, timeout=7200)
    try:
        out = json.loads(p.stdout)
    except Exception:
        return m["id"], None, p.stdout[-300:] + p.stderr[-300:]
    return m["id"], out, None


def main():
    ap = argparse.ArgumentParser()
    ap.add_argument("--jobs", type=int, default=3)
    ap.add_argument("--only")
    ap.add_argument("--start", type=int, default=0, help="skip the first N seeds (sorted order)")
    ap.add_argument("--reverse", action="store_true", help="newest rounds of the highest-numbered properties first")
    args = ap.parse_args()
    dirs = sorted(glob.glob(os.path.join(VERIF, "seeded", "*", "")))
    if args.only:
        dirs = [d for d in dirs if args.only in d]
    dirs = dirs[args.start:]
    if args.reverse:
        dirs.reverse()
    per = max(2, 16 // args.jobs)
    missed = 0
    with concurrent.futures.ThreadPoolExecutor(args.jobs) as ex:
        for sid, out, err in ex.map(lambda d: one(d, per), dirs):
            if out == "retired":
                print(f"RETIRED  {sid}: no longer manifests on the current tree (see meta.json)")
                continue
            if out is None:
                print(f"ERROR    {sid}: {err}")
                missed += 1
                continue
            if "caught_by" not in out:
                print(f"NOAPPLY  {sid}: {str(out.get('apply'))[:160]}")
                missed += 1
                continue
            caught = sorted({k.split("@")[0] for k in out["caught_by"]})
            ok = out["confirmed"] and caught
            if not ok:
                missed += 1
            print(f"{'CAUGHT ' if ok else 'MISSED '} {sid}: confirmed={out['confirmed']} caught_by={caught}")
            sys.stdout.flush()
    print(f"{len(dirs) - missed}/{len(dirs)} seeded changes confirmed and caught")
    return 1 if missed else 0


if __name__ == "__main__":
    sys.exit(main())
