#!/usr/bin/env python3
"""Print the catch matrix of the kept seeded changes (seeded/*/meta.json) as a markdown table."""
import glob
import json
import os

VERIF = os.path.dirname(os.path.dirname(os.path.abspath(__file__)))
rows = []
for f in sorted(glob.glob(os.path.join(VERIF, "seeded", "*", "meta.json"))):
    m = json.load(open(f))
    caught = ", ".join(sorted({k.split("@")[0] for k in m.get("caught_by", [])})) or "—"
    if m.get("no_longer_manifests"):
        caught += " (before fix F12; the change no longer manifests)"
    missed = ", ".join(sorted({k.split("@")[0] for k, v in m.get("check_runs", {}).items()
                               if not (v["exit"] == 1 and v["violation_lines"])})) or ""
    mons = []
    for k, v in m.get("check_runs", {}).items():
        if v["exit"] == 1 and v["monitors"]:
            mons.append(k.split("@")[0] + ":" + v["monitors"][0].split("monitor=")[1].split()[0])
    rows.append((m["id"], m["breaks_property"], m["needs_to_manifest"], caught, "; ".join(mons[:3]), missed))
print("| seeded change | breaks | needs in order to manifest | caught by (quick tier) | first monitors | also run, not decisive |")
print("|---|---|---|---|---|---|")
for r in rows:
    print("| " + " | ".join(str(x).replace("|", "/") for x in r) + " |")
print(f"\n{len(rows)} seeded changes, {sum(1 for r in rows if r[3] != '—')} caught.")
