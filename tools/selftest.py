#!/usr/bin/env python3
"""Self-validation of the monitors (DESIGN.md section 6).

For every mutant in mutants/mutants.txt (a realistic, property-breaking text edit of
amaranth_soc) this tool
  1. copies /repo/amaranth_soc and /repo/tests to a scratch directory under /var/tmp,
  2. applies the edit (exact text replacement; the edit must apply exactly `count` times),
  3. runs the repository's own tests there (a mutant that fails them is 'unrealistic'),
  4. runs the property's quick check with VERIF_REPO pointing at the copy, without touching
     the evidence files, and expects a VIOLATION line,
  5. deletes the copy.
Nothing in /repo is modified.

    /venv/bin/python tools/selftest.py [--only C04,C05] [--name substring] [--tier quick] [--jobs 4]
"""
import argparse
import concurrent.futures
import json
import os
import shutil
import subprocess
import sys
import tempfile

VERIF = os.path.dirname(os.path.dirname(os.path.abspath(__file__)))
REPO = "/repo"
PY = "/venv/bin/python"


def run_mutant(mut, tier, skip_tests, jobs_per_check):
    scratch = tempfile.mkdtemp(prefix="vmut_", dir="/var/tmp")
    try:
        shutil.copytree(os.path.join(REPO, "amaranth_soc"), os.path.join(scratch, "amaranth_soc"))
        shutil.copytree(os.path.join(REPO, "tests"), os.path.join(scratch, "tests"))
        for ed in mut["edits"]:
            path = os.path.join(scratch, ed["file"])
            src = open(path).read()
            n = src.count(ed["old"])
            if n != ed.get("count", 1):
                return {"name": mut["name"], "status": "EDIT-DOES-NOT-APPLY", "detail": f"{ed['file']}: {n} matches"}
            src = src.replace(ed["old"], ed["new"])
            open(path, "w").write(src)
        tests_ok = None
        if not skip_tests:
            p = subprocess.run([PY, "-m", "pytest", "-q", "-x", "-p", "no:cacheprovider", "tests"],
                               cwd=scratch, capture_output=True, text=True, timeout=900)
            tests_ok = p.returncode == 0
            tail = p.stdout.strip().splitlines()[-1:] if p.stdout else []
        out = {}
        for pid in mut["properties"]:
            env = dict(os.environ, VERIF_REPO=scratch)
            p = subprocess.run([os.path.join(VERIF, "check"), pid, "--tier", tier, "--no-evidence",
                                "--jobs", str(jobs_per_check)],
                               cwd=VERIF, capture_output=True, text=True, env=env, timeout=3600)
            viol = [l for l in p.stdout.splitlines() if l.startswith("VIOLATION")]
            first = [l for l in p.stdout.splitlines() if l.startswith("  violation")][:1]
            out[pid] = {"exit": p.returncode, "violations": len(viol), "first": first,
                        "tail": p.stdout.strip().splitlines()[-1:] if not viol else []}
        caught = all(o["exit"] == 1 and o["violations"] > 0 for o in out.values())
        return {"name": mut["name"], "status": "CAUGHT" if caught else "MISSED",
                "tests_pass": tests_ok, "checks": out}
    finally:
        shutil.rmtree(scratch, ignore_errors=True)


def parse_mutants(path):
    """mutants.txt: blocks of
         ### name: <id>
         ### props: C01,C02
         ### file: amaranth_soc/x.py      (optionally '### count: N' before the edit)
         <<<<<<<
         old text
         =======
         new text
         >>>>>>>
    Old/new text are taken verbatim, without the newline before the separators."""
    muts, cur, ed, mode, buf = [], None, None, None, []
    count = 1
    for line in open(path).read().split("\n"):
        if mode is None:
            if line.startswith("### name:"):
                cur = {"name": line.split(":", 1)[1].strip(), "properties": [], "edits": []}
                muts.append(cur)
            elif line.startswith("### props:"):
                cur["properties"] = [x.strip() for x in line.split(":", 1)[1].split(",") if x.strip()]
            elif line.startswith("### file:"):
                ed = {"file": line.split(":", 1)[1].strip(), "count": count}
            elif line.startswith("### count:"):
                count = int(line.split(":", 1)[1])
                if ed is not None:
                    ed["count"] = count
            elif line == "<<<<<<<":
                mode, buf = "old", []
        elif mode == "old":
            if line == "=======":
                ed["old"] = "\n".join(buf)
                mode, buf = "new", []
            else:
                buf.append(line)
        elif mode == "new":
            if line == ">>>>>>>":
                ed["new"] = "\n".join(buf)
                ed.setdefault("count", 1)
                cur["edits"].append(dict(ed))
                mode, count = None, 1
                ed = {"file": ed["file"], "count": 1}
            else:
                buf.append(line)
    return muts


def main():
    ap = argparse.ArgumentParser()
    ap.add_argument("--only")
    ap.add_argument("--name")
    ap.add_argument("--tier", default="quick")
    ap.add_argument("--skip-tests", action="store_true")
    ap.add_argument("--jobs", type=int, default=4)
    args = ap.parse_args()
    muts = parse_mutants(os.path.join(VERIF, "mutants", "mutants.txt"))
    if args.only:
        ids = set(args.only.split(","))
        muts = [m for m in muts if ids & set(m["properties"])]
    if args.name:
        muts = [m for m in muts if args.name in m["name"]]
    per = max(1, 16 // args.jobs)
    bad = 0
    with concurrent.futures.ThreadPoolExecutor(args.jobs) as ex:
        for r in ex.map(lambda m: run_mutant(m, args.tier, args.skip_tests, per), muts):
            flag = r["status"]
            if flag != "CAUGHT":
                bad += 1
            extra = ""
            if r.get("tests_pass") is False:
                extra = " (repo tests FAIL with this mutant: unrealistic)"
            print(f"{flag:8s} {r['name']}{extra}")
            for pid, o in r.get("checks", {}).items():
                msg = (o["first"] or o["tail"] or [""])[0].strip()[:200]
                print(f"           {pid}: exit={o['exit']} violations={o['violations']} {msg}")
            if "detail" in r:
                print("          ", r["detail"])
            sys.stdout.flush()
    print(f"{len(muts) - bad}/{len(muts)} mutants caught")
    return 1 if bad else 0


if __name__ == "__main__":
    sys.exit(main())
