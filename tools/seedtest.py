#!/usr/bin/env python3
"""Confirm a seeded change and run the checks against it, without touching /repo.

    /venv/bin/python tools/seedtest.py <seed dir with patch.diff and demo.py> --props C04,C05 [--tier quick] [--seeds 0,1]

Steps (all in a scratch copy of /repo/amaranth_soc + /repo/tests under /var/tmp, removed afterwards):
  1. demo.py on the unchanged copy must exit 0;
  2. apply patch.diff; the repository's own test-suite must pass; demo.py must now fail;
  3. each listed check is run with VERIF_REPO pointing at the changed copy (no evidence written);
     a VIOLATION line is the expected outcome.
Prints a JSON summary on the last line.
"""
import argparse
import json
import os
import shutil
import subprocess
import sys
import tempfile

VERIF = os.path.dirname(os.path.dirname(os.path.abspath(__file__)))
PY = "/venv/bin/python"


def run(cmd, cwd, timeout=1800, env=None):
    p = subprocess.run(cmd, cwd=cwd, capture_output=True, text=True, timeout=timeout, env=env)
    return p.returncode, p.stdout, p.stderr


def main():
    ap = argparse.ArgumentParser()
    ap.add_argument("seed")
    ap.add_argument("--props", required=True)
    ap.add_argument("--tier", default="quick")
    ap.add_argument("--seeds", default="0")
    ap.add_argument("--jobs", type=int, default=16)
    ap.add_argument("--keep", help="store the confirmed seed as /verif/seeded/<KEEP>/ (patch.diff, demo.py, notes.md, meta.json)")
    ap.add_argument("--breaks", help="property id the change was written to break (for meta.json)")
    ap.add_argument("--needs", help="what the change needs in order to manifest (for meta.json)")
    args = ap.parse_args()
    seed = os.path.abspath(args.seed)
    scratch = tempfile.mkdtemp(prefix="vseed_", dir="/var/tmp")
    out = {"seed": seed, "checks": {}}
    try:
        shutil.copytree("/repo/amaranth_soc", os.path.join(scratch, "amaranth_soc"))
        shutil.copytree("/repo/tests", os.path.join(scratch, "tests"))
        # keep the layout the demo was written for: <root>/<seedN>/demo.py, run from <root>
        sub = os.path.basename(seed.rstrip("/"))
        os.makedirs(os.path.join(scratch, sub), exist_ok=True)
        shutil.copy(os.path.join(seed, "demo.py"), os.path.join(scratch, sub, "demo.py"))
        demo = os.path.join(sub, "demo.py")
        env = dict(os.environ, PYTHONPATH=scratch, PYTHONDONTWRITEBYTECODE="1")
        rc, so, se = run([PY, demo], scratch, env=env)
        out["demo_on_original"] = rc
        out["demo_imports"] = [l for l in (so + se).splitlines() if "amaranth_soc" in l and "/" in l][:1]
        rc, so, se = run(["git", "apply", "--include=amaranth_soc/*", os.path.join(seed, "patch.diff")], scratch)
        if rc != 0:
            out["apply"] = se[-500:]
            print(json.dumps(out))
            return 2
        rc, so, se = run([PY, "-m", "pytest", "-q", "-p", "no:cacheprovider", "tests"], scratch, env=env)
        out["tests_with_change"] = rc
        out["tests_tail"] = so.strip().splitlines()[-1:] if so else []
        rc, so, se = run([PY, demo], scratch, env=env)
        out["demo_with_change"] = rc
        out["demo_failure"] = (so + se).strip().splitlines()[-1:][0][:300] if (so + se).strip() else ""
        for pid in args.props.split(","):
            for s in args.seeds.split(","):
                e = dict(os.environ, VERIF_REPO=scratch, VERIF_SEED=s)
                rc, so, se = run([os.path.join(VERIF, "check"), pid, "--tier", args.tier, "--no-evidence",
                                  "--jobs", str(args.jobs)], VERIF, timeout=7200, env=e)
                lines = so.splitlines()
                out["checks"][f"{pid}@{args.tier}/seed{s}"] = {
                    "exit": rc, "violations": sum(l.startswith("VIOLATION") for l in lines),
                    "groups": [l.strip()[:220] for l in lines if " x monitor=" in l][:4],
                    "first": [l.strip()[:300] for l in lines if l.startswith("  violation")][:1],
                    "tail": lines[-1:][0][:200] if lines and rc != 1 else ""}
    finally:
        shutil.rmtree(scratch, ignore_errors=True)
    ok = out.get("demo_on_original") == 0 and out.get("tests_with_change") == 0 and out.get("demo_with_change", 0) != 0
    out["confirmed"] = ok
    out["caught_by"] = sorted(k for k, v in out["checks"].items() if v["exit"] == 1 and v["violations"])
    if args.keep and ok:
        dst = os.path.join(VERIF, "seeded", args.keep)
        os.makedirs(dst, exist_ok=True)
        for f in ("patch.diff", "demo.py", "notes.md"):
            if os.path.exists(os.path.join(seed, f)):
                shutil.copy(os.path.join(seed, f), os.path.join(dst, f))
        meta_path = os.path.join(dst, "meta.json")
        meta = json.load(open(meta_path)) if os.path.exists(meta_path) else {}
        meta.update({
            "id": args.keep,
            "breaks_property": args.breaks or meta.get("breaks_property"),
            "needs_to_manifest": args.needs or meta.get("needs_to_manifest"),
            "author": "independent sub-agent given only the property text and a scratch worktree",
            "confirmed": {"demo_on_original_exit": out["demo_on_original"], "repo_tests_with_change_exit": out["tests_with_change"],
                          "repo_tests_tail": out.get("tests_tail"), "demo_with_change_exit": out["demo_with_change"],
                          "demo_failure": out.get("demo_failure")},
            "how_confirmed": "tools/seedtest.py: scratch copy of /repo/amaranth_soc + tests under /var/tmp; demo on original; "
                             "git apply patch.diff; full pytest; demo again; checks run with VERIF_REPO=<scratch copy>",
        })
        runs = meta.setdefault("check_runs", {})
        for k, v in out["checks"].items():
            runs[k] = {"exit": v["exit"], "violation_lines": v["violations"], "monitors": v["groups"][:3]}
        meta["caught_by"] = sorted(k for k, v in runs.items() if v["exit"] == 1 and v["violation_lines"])
        json.dump(meta, open(meta_path, "w"), indent=1)
    print(json.dumps(out, indent=1))
    return 0


if __name__ == "__main__":
    sys.exit(main())
